#!/bin/bash
# usage: tools/seeded_matrix_all.sh [lanes]   (default 2 lanes x 8 workers)
# Runs tools/seeded_matrix.sh over all seeded changes in parallel lanes and
# merges the partial tables into seeded/MATRIX.md.
cd /verif
L=${1:-2}
for ((i=0;i<L;i++)); do
  MATRIX_LANE=$i MATRIX_LANES=$L MATRIX_WORKERS=${MATRIX_WORKERS:-$((16/L))} tools/seeded_matrix.sh > /tmp/matrix_lane$i.log 2>&1 &
done
wait
{ echo "| seeded change | outcome of ./check <property> |"; echo "|---|---|"; cat seeded/MATRIX.part* | sort | awk -F'|' '{print "| "$1" | "$2" |"}'; } > seeded/MATRIX.md
rm -f seeded/MATRIX.part*
grep -c caught seeded/MATRIX.md
