#!/bin/bash
# usage: seed_confirm.sh <Cxx> <mN>   : confirm an agent-produced mutation in a scratch worktree
# and store it under /verif/seeded/<Cxx>-<mN>/ (patch.diff, demo test, meta.json).
set -u
id="$1"; m="$2"
src=/tmp/mut/$id/out/$m
dst=/verif/seeded/$id-$m
wt=/tmp/seedwt/$id-$m
[ -f "$src/patch.diff" ] || { echo "no patch at $src"; exit 2; }
export GOFLAGS=-mod=mod GOPROXY=off
rm -rf "$wt"; mkdir -p /tmp/seedwt
git -C /repo worktree add --detach "$wt" ${BASE:-HEAD} >/dev/null 2>&1 || { echo "worktree failed"; exit 2; }
cd "$wt"
demo_pkg=$(python3 -c "import json;print(json.load(open('$src/meta.json'))['demo_pkg_dir'])")
demo_file=$(python3 -c "import json;print(json.load(open('$src/meta.json'))['demo_file'])")
[ "$demo_pkg" = "." ] && demo_dir="$wt" || demo_dir="$wt/$demo_pkg"
cp "$src/$demo_file" "$demo_dir/"
# demo passes without the mutation
go test -vet=off -count=1 -timeout 300s -run 'Demo' ./$demo_pkg > /tmp/seedwt/$id-$m.demo_clean.log 2>&1; demo_clean=$?
git apply "$src/patch.diff" 2>/dev/null || git apply --3way "$src/patch.diff" || { echo "patch does not apply"; exit 2; }
go build ./... > /tmp/seedwt/$id-$m.build.log 2>&1 && go test -vet=off -count=1 -run '^$' ./... >> /tmp/seedwt/$id-$m.build.log 2>&1; build=$?
go test -vet=off -count=1 -timeout 300s -run 'Demo' ./$demo_pkg > /tmp/seedwt/$id-$m.demo_mut.log 2>&1; demo_mut=$?
rm -f "$demo_dir/$demo_file"
go test -vet=off -count=1 -timeout 25m ./... > /tmp/seedwt/$id-$m.suite.log 2>&1; suite=$?
if [ $suite -ne 0 ]; then
  # re-run failing packages once (timing-sensitive tests)
  pk=$(grep '^FAIL\s' /tmp/seedwt/$id-$m.suite.log | awk '{print $2}' | grep -v '^$' | sort -u | tr '\n' ' ')
  if [ -n "$pk" ]; then go test -vet=off -count=1 -timeout 25m $pk > /tmp/seedwt/$id-$m.suite2.log 2>&1; suite=$?; fi
fi
cd /; git -C /repo worktree remove --force "$wt"
ok=false
if [ $build -eq 0 ] && [ $suite -eq 0 ] && [ $demo_clean -eq 0 ] && [ $demo_mut -ne 0 ]; then ok=true; fi
echo "$id-$m build=$build suite=$suite demo_clean=$demo_clean demo_mut=$demo_mut confirmed=$ok"
if $ok; then
  mkdir -p "$dst"; cp "$src/patch.diff" "$dst/patch.diff"; cp "$src/$demo_file" "$dst/"
  python3 - "$src/meta.json" "$dst/meta.json" <<'PY'
import json,sys
m=json.load(open(sys.argv[1]))
out={"property":m.get("property"),"title":m.get("title"),"site":m.get("site"),"what_it_breaks":m.get("what_it_breaks"),
 "needs_to_manifest":m.get("needs_to_manifest"),"demo_pkg_dir":m.get("demo_pkg_dir"),"demo_file":m.get("demo_file"),"demo_run":m.get("demo_run"),
 "origin":"independent sub-agent given only the property text and a scratch worktree",
 "confirmed_by_me":{"worktree":"scratch worktree of /repo HEAD (with the fix: commits of that time) under /tmp/seedwt (removed afterwards)",
   "ran":["go build ./... && go test -run '^$' ./... (with patch): ok","go test -vet=off -count=1 -timeout 25m ./... (with patch, demo removed): ok",
          "go test -run Demo ./<demo_pkg_dir> without patch: pass","go test -run Demo ./<demo_pkg_dir> with patch: FAIL"]},
 "detected_by":"see DESIGN.md section 'Seeded changes'"}
json.dump(out,open(sys.argv[2],'w'),indent=1)
PY
fi
