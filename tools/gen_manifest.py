#!/usr/bin/env python3
"""Generate /verif/MANIFEST.json from tools/manifest_src.json (claims) + properties.jsonl."""
import json, os
V='/verif'
src=json.load(open(f'{V}/tools/manifest_src.json'))
props=[json.loads(l) for l in open(f'{V}/properties.jsonl')]
checks=[]; na=[]
for p in props:
    pid=p['id']
    c=src['claims'].get(pid)
    if not c:
        na.append({"property_id":pid,"reason":src['not_applicable'].get(pid,"no solver-decided harness registered yet for this property in this build")})
        continue
    checks.append({
        "property_id":pid,
        "quick_cmd":f"./check {pid} --tier quick",
        "thorough_cmd":f"./check {pid} --tier thorough",
        "evidence_file":f"/verif/evidence/{pid}.json",
        "replay_cmd_template":"./check --replay {path}",
        "engine":"symgo",
        "level_claimed":{"category":"model_checking","text":c['text'],"design_ref":c.get('design_ref','DESIGN.md section 3, '+pid)},
        "level_note":c['note'],
        "technique":"bounded symbolic execution of the real code's go/ssa with SMT (z3) deciding every path and assertion; counterexamples replayed natively"
    })
m={"version":1,
   "setup_cmd":"cd /verif/engine && GOTOOLCHAIN=local PATH=/opt/veriftools/go1.26.8/bin:$PATH GOFLAGS=-mod=mod GOPROXY=off GOSUMDB=off go build -o ../bin/symgo .",
   "hooks":{"guard":"verif","enable":"harness files are injected by overlay (packages.Config.Overlay / go test -overlay) with build tag 'verif'; no hook code is committed to /repo","baseline_off_cmd":"cd /repo && GOFLAGS=-mod=mod GOPROXY=off go test -json -vet=off -count=1 -timeout 25m ./...","source_commits":[],"add_only":True},
   "engines":[{"name":"symgo","path":"/verif/engine","serves_properties":[c['property_id'] for c in checks],"kind_free_text":"symbolic interpreter for go/ssa (derived from x/tools ssa/interp) + SMT-LIB2 over a z3 pipe; explores every feasible path within stated bounds, discharges assertions per path, replays counterexamples with go test -overlay"}],
   "checks":checks,
   "not_applicable":na,
   "notes":src.get('notes','')}
json.dump(m,open(f'{V}/MANIFEST.json','w'),indent=1)
print(len(checks),"claimed;",len(na),"not applicable")
