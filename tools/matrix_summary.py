#!/usr/bin/env python3
"""Rewrites the summary paragraph of DESIGN.md section 8 from seeded/MATRIX.md."""
import re,collections
rows=[l.split('|')[1:3] for l in open('/verif/seeded/MATRIX.md') if l.startswith('| C')]
tot=len(rows); q=sum('caught (quick)' in r[1] for r in rows); t=sum('caught (thorough)' in r[1] for r in rows)
other=[(r[0].strip(),r[1].strip()) for r in rows if 'caught (' not in r[1]]
per=collections.Counter(r[0].strip().split('-')[0] for r in rows)
txt=(f"<!-- matrix-summary -->\nLast full run (`tools/seeded_matrix_all.sh`, all checks frozen): **{q+t} of {tot}** seeded changes are reported as\n"
     f"`VIOLATION` by the check of the property they were aimed at — {q} by the quick tier, {t} only by the thorough tier.\n")
if other:
    txt+="Not caught:\n"+"".join(f"* `{a}`: {b}\n" for a,b in other)
else:
    txt+="None is missed and none ends inconclusive.\n"
txt+="Changes per property: "+", ".join(f"{k} {v}" for k,v in sorted(per.items()))+".\n<!-- /matrix-summary -->"
p='/verif/DESIGN.md'; s=open(p).read()
if 'MATRIX_SUMMARY_PLACEHOLDER' in s: s=s.replace('MATRIX_SUMMARY_PLACEHOLDER',txt)
else: s=re.sub(r'<!-- matrix-summary -->.*?<!-- /matrix-summary -->',lambda m:txt,s,flags=re.S)
open(p,'w').write(s); print(txt)
