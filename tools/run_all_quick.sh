#!/bin/bash
# usage: tools/run_all_quick.sh [tier]
# Runs every property's check in turn against /repo (evidence is rewritten),
# prints exit code and wall time, then validates MANIFEST.json and every
# evidence file against the schemas.
cd /verif
tier=${1:-quick}
fail=0
for n in $(seq -w 1 20); do
  id=C$n; t0=$(date +%s)
  out=$(./check $id --tier $tier 2>&1); rc=$?
  echo "$id exit=$rc wall=$(( $(date +%s) - t0 ))s $(echo "$out" | grep -E '^(VIOLATION|INCONCLUSIVE|KNOWN-FINDING)' | head -3 | tr '\n' ' ' | cut -c1-300)"
  [ $rc -eq 0 ] || fail=1
done
python3-vt - <<'PY'
import json,jsonschema,glob
jsonschema.validate(json.load(open('/verif/MANIFEST.json')),json.load(open('/root/.vp/MANIFEST.schema.json')))
sch=json.load(open('/root/.vp/EVIDENCE.schema.json'))
for f in sorted(glob.glob('/verif/evidence/C*.json')):
    jsonschema.validate(json.load(open(f)),sch)
print('manifest and', len(glob.glob('/verif/evidence/C*.json')), 'evidence files validate')
PY
exit $fail
