#!/bin/bash
# usage: tools/seeded_matrix.sh [id-prefix ...]
# Applies every kept seeded change in turn to a scratch worktree of /repo's HEAD
# (under /tmp, removed at the end), points the quick check of its property at
# that worktree (and the thorough one when quick misses it) with evidence and
# replay files redirected to a scratch directory, and records the outcome in
# seeded/<id>/meta.json and seeded/MATRIX.md.  /repo and /verif/evidence are
# not touched.
set -u
cd /verif
sel="${*:-}"
WT=/tmp/matrix_wt; OUT=/tmp/matrix_out
git -C /repo worktree remove --force $WT >/dev/null 2>&1; rm -rf $WT $OUT
git -C /repo worktree add --detach $WT HEAD >/dev/null 2>&1 || { echo "cannot create scratch worktree"; exit 2; }
export SYMGO_SCRATCH_OUT=$OUT
out=seeded/MATRIX.tmp
: > $out
for d in seeded/C*-m*; do
  id=$(basename $d); prop=${id%%-*}
  if [ -n "$sel" ]; then ok=0; for s in $sel; do case $id in $s*) ok=1;; esac; done; [ $ok = 1 ] || continue; fi
  git -C $WT reset -q --hard HEAD; git -C $WT clean -fdq
  if ! git -C $WT apply --3way $PWD/$d/patch.diff >/dev/null 2>&1 && ! git -C $WT apply $PWD/$d/patch.diff >/dev/null 2>&1; then
    git -C $WT reset -q --hard HEAD
    echo "$id|does not apply on the current tree (the code it changed was since repaired)|-" >> $out; continue
  fi
  tier=quick
  log=$(./check $prop -repo $WT 2>&1); rc=$?
  if [ $rc -eq 0 ]; then tier=thorough; log=$(./check $prop --tier thorough -repo $WT 2>&1); rc=$?; fi
  git -C $WT reset -q --hard HEAD
  labels=$(echo "$log" | grep -A1 '^VIOLATION' | grep 'harness=' | sed 's/^ *//' | sort -u | head -3 | tr '\n' ';')
  case $rc in
    1) res="caught ($tier): $labels";;
    0) res="MISSED";;
    *) res="inconclusive ($tier): $(echo "$log" | grep INCONCLUSIVE | head -1 | cut -c1-200)";;
  esac
  echo "$id|$res|$rc" >> $out
  python3 - "$d/meta.json" "$res" <<'PY'
import json,sys
m=json.load(open(sys.argv[1])); m['detected_by']=sys.argv[2]; json.dump(m,open(sys.argv[1],'w'),indent=1)
PY
  echo "$id -> $res"
done
git -C /repo worktree remove --force $WT; rm -rf $OUT
{ echo "| seeded change | outcome of ./check <property> |"; echo "|---|---|"; sort $out | awk -F'|' '{print "| "$1" | "$2" |"}'; } > seeded/MATRIX.new
if [ -z "$sel" ]; then mv seeded/MATRIX.new seeded/MATRIX.md; else cat seeded/MATRIX.new; fi
rm -f $out seeded/MATRIX.new
