#!/bin/bash
# usage: tools/seeded_matrix.sh [id-prefix ...]
# Applies every kept seeded change in turn to a scratch worktree of /repo's HEAD
# (under /tmp, removed at the end), points the quick check of its property at
# that worktree (and the thorough one when quick misses it) with evidence and
# replay files redirected to a scratch directory, and records the outcome in
# seeded/<id>/meta.json and seeded/MATRIX.md.  /repo and /verif/evidence are
# not touched.
# MATRIX_LANE / MATRIX_LANES split the work over parallel invocations (each with
# its own worktree); MATRIX_WORKERS is passed to the checks. With lanes the
# partial tables stay in seeded/MATRIX.part<lane>; tools/seeded_matrix_all.sh
# runs the lanes and merges them.
set -u
LANE=${MATRIX_LANE:-0}; LANES=${MATRIX_LANES:-1}; W=${MATRIX_WORKERS:-16}
cd /verif
sel="${*:-}"
WT=/tmp/matrix_wt$LANE; OUT=/tmp/matrix_out$LANE
git -C /repo worktree remove --force $WT >/dev/null 2>&1; rm -rf $WT $OUT
git -C /repo worktree add --detach $WT HEAD >/dev/null 2>&1 || { echo "cannot create scratch worktree"; exit 2; }
export SYMGO_SCRATCH_OUT=$OUT
out=seeded/MATRIX.tmp$LANE
n=0
: > $out
for d in seeded/C*-m*; do
  id=$(basename $d); prop=${id%%-*}
  n=$((n+1)); [ $((n % LANES)) -eq $LANE ] || continue
  if [ -n "$sel" ]; then ok=0; for s in $sel; do case $id in $s*) ok=1;; esac; done; [ $ok = 1 ] || continue; fi
  git -C $WT reset -q --hard HEAD; git -C $WT clean -fdq
  # patch_rebased.diff: the same change carried over by hand where a later fix: commit rewrote the lines it touches
  pf=$PWD/$d/patch.diff; [ -f $PWD/$d/patch_rebased.diff ] && pf=$PWD/$d/patch_rebased.diff
  if ! git -C $WT apply --3way $pf >/dev/null 2>&1 && ! git -C $WT apply $pf >/dev/null 2>&1; then
    git -C $WT reset -q --hard HEAD
    echo "$id|does not apply on the current tree (the code it changed was since repaired)|-" >> $out; continue
  fi
  tier=quick
  log=$(./check $prop -repo $WT -workers $W 2>&1); rc=$?
  if [ $rc -eq 0 ]; then tier=thorough; log=$(timeout 3000 ./check $prop --tier thorough -repo $WT -workers $W 2>&1); rc=$?; fi
  git -C $WT reset -q --hard HEAD
  labels=$(echo "$log" | grep -A1 '^VIOLATION' | grep 'harness=' | sed 's/^ *//' | sort -u | head -3 | tr '\n' ';')
  case $rc in
    1) res="caught ($tier): $labels";;
    0) res="MISSED";;
    124) res="MISSED by quick; thorough did not finish within 50 min";;
    *) res="inconclusive ($tier): $(echo "$log" | grep INCONCLUSIVE | head -1 | cut -c1-200)";;
  esac
  echo "$id|$res|$rc" >> $out
  python3 - "$d/meta.json" "$res" <<'PY'
import json,sys
m=json.load(open(sys.argv[1])); m['detected_by']=sys.argv[2]; json.dump(m,open(sys.argv[1],'w'),indent=1)
PY
  echo "$id -> $res"
done
git -C /repo worktree remove --force $WT; rm -rf $OUT
{ echo "| seeded change | outcome of ./check <property> |"; echo "|---|---|"; sort $out | awk -F'|' '{print "| "$1" | "$2" |"}'; } > seeded/MATRIX.new
if [ "$LANES" -gt 1 ]; then cp $out seeded/MATRIX.part$LANE
elif [ -z "$sel" ]; then mv seeded/MATRIX.new seeded/MATRIX.md; else cat seeded/MATRIX.new; fi
rm -f $out seeded/MATRIX.new
