#!/bin/bash
# usage: tools/seeded_matrix.sh [id-prefix ...]
# Applies every kept seeded change to /repo in turn (git apply; undone straight
# afterwards), runs the quick check of its property (and the thorough one when
# quick misses it), and records the outcome in seeded/<id>/meta.json and
# seeded/MATRIX.md.  /repo is left clean.
set -u
cd /verif
sel="${*:-}"
out=seeded/MATRIX.tmp
: > $out
for d in seeded/C*-m*; do
  id=$(basename $d); prop=${id%%-*}
  if [ -n "$sel" ]; then ok=0; for s in $sel; do case $id in $s*) ok=1;; esac; done; [ $ok = 1 ] || continue; fi
  git -C /repo checkout HEAD -- . >/dev/null 2>&1
  if ! git -C /repo apply --3way $PWD/$d/patch.diff >/dev/null 2>&1 && ! git -C /repo apply $PWD/$d/patch.diff >/dev/null 2>&1; then
    git -C /repo reset -q --hard HEAD
    echo "$id|does not apply on the current tree (the code it changed was since repaired)|-" >> $out; continue
  fi
  tier=quick
  log=$(./check $prop 2>&1); rc=$?
  if [ $rc -eq 0 ]; then tier=thorough; log=$(./check $prop --tier thorough 2>&1); rc=$?; fi
  git -C /repo reset -q --hard HEAD
  labels=$(echo "$log" | grep -A1 '^VIOLATION' | grep 'harness=' | sed 's/^ *//' | sort -u | head -3 | tr '\n' ';')
  case $rc in
    1) res="caught ($tier): $labels";;
    0) res="MISSED";;
    *) res="inconclusive ($tier): $(echo "$log" | grep INCONCLUSIVE | head -1 | cut -c1-200)";;
  esac
  echo "$id|$res|$rc" >> $out
  python3 - "$d/meta.json" "$res" <<'PY'
import json,sys
m=json.load(open(sys.argv[1])); m['detected_by']=sys.argv[2]; json.dump(m,open(sys.argv[1],'w'),indent=1)
PY
  echo "$id -> $res"
done
git -C /repo status --short
{ echo "| seeded change | outcome of ./check <property> |"; echo "|---|---|"; sort $out | awk -F'|' '{print "| "$1" | "$2" |"}'; } > seeded/MATRIX.new
if [ -z "$sel" ]; then mv seeded/MATRIX.new seeded/MATRIX.md; else cat seeded/MATRIX.new; fi
rm -f $out seeded/MATRIX.new
