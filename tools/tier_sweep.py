#!/usr/bin/env python3
"""Run every distinct (harness, parameters) pair of a tier once, with evidence
and replays redirected to a scratch directory, and print wall time and verdict.
usage: tools/tier_sweep.py <quick|thorough> [budget_seconds] [workers] [property ids...]"""
import json,glob,subprocess,sys,time,os
tier=sys.argv[1]; budget=sys.argv[2] if len(sys.argv)>2 else '1200'; workers=sys.argv[3] if len(sys.argv)>3 else '16'
only=set(sys.argv[4:])
seen={}
for f in sorted(glob.glob('/verif/harness/specs/*.json')):
    sp=json.load(open(f))
    for pid,p in sp['properties'].items():
        if only and pid not in only: continue
        for h in p['harnesses']:
            if 'tiers' in h and tier not in h['tiers']: continue
            key=(h['pkg'],h['func'],json.dumps(h.get(tier,{}),sort_keys=True))
            seen.setdefault(key,pid)
env=dict(os.environ,SYMGO_SCRATCH_OUT='/tmp/sweep_out')
# entries already seen to pass (lines of earlier sweep logs named in $SWEEP_SKIP_LOGS) are skipped
done=set()
for lf in os.environ.get('SWEEP_SKIP_LOGS','').split(':'):
    if lf and os.path.exists(lf):
        for l in open(lf):
            if ' exit=0 ' in l and '{' in l:
                fn=l.split()[1]; pj=l[l.index('{'):l.rindex('}')+1]
                try: done.add((fn,json.dumps(json.loads(pj),sort_keys=True)))
                except Exception: pass
for (pkg,fn,params),pid in seen.items():
    if (fn,params) in done: continue
    t=time.time()
    r=subprocess.run(['/verif/check',pid,'--tier',tier,'-harness',fn,'-budget',budget,'-workers',workers],capture_output=True,text=True,env=env)
    res=[l for l in r.stdout.splitlines() if l.startswith('RESULT')]
    inc=[l[:160] for l in r.stdout.splitlines() if l.startswith('INCONCLUSIVE') or l.startswith('VIOLATION')]
    print(f"{pid} {fn} {params} exit={r.returncode} wall={time.time()-t:.0f}s {inc[:2]}",flush=True)
