//go:build verif

package fullrt

import (
	"context"
	"errors"
	"strconv"

	kaddht "github.com/libp2p/go-libp2p-kad-dht"
	"github.com/libp2p/go-libp2p-kad-dht/crawler"
	"github.com/libp2p/go-libp2p-kad-dht/records"
	"github.com/libp2p/go-libp2p/core/event"
	"github.com/libp2p/go-libp2p/core/network"
	"github.com/libp2p/go-libp2p/core/peer"
	"github.com/libp2p/go-libp2p/core/peerstore"
	ma "github.com/multiformats/go-multiaddr"
)

// the public constructor and Close of the accelerated client (C16 "configured
// limit", "one completed crawl"; C14 Close / failed constructor).

type vfBus struct {
	event.Bus
	subs, closed int
	fail         bool
}

type vfSub struct {
	b      *vfBus
	ch     chan interface{}
	closed bool
}

func (s *vfSub) Out() <-chan interface{} { return s.ch }
func (s *vfSub) Name() string            { return "vf" }
func (s *vfSub) Close() error {
	if !s.closed {
		s.closed = true
		s.b.closed++
	}
	return nil
}

func (b *vfBus) Subscribe(interface{}, ...event.SubscriptionOpt) (event.Subscription, error) {
	if b.fail {
		return nil, errors.New("subscribe failed")
	}
	b.subs++
	return &vfSub{b: b, ch: make(chan interface{})}, nil
}

type vfConnNet struct {
	network.Network
	conns map[peer.ID]bool
}

type vfPConn struct {
	network.Conn
	p peer.ID
}

func (c vfPConn) RemotePeer() peer.ID { return c.p }

func (n *vfConnNet) Connectedness(peer.ID) network.Connectedness { return network.NotConnected }
func (n *vfConnNet) ConnsToPeer(p peer.ID) []network.Conn {
	if n.conns[p] {
		return []network.Conn{vfPConn{p: p}}
	}
	return nil
}

type vfFullHost struct {
	vfHost
	bus *vfBus
	nw  *vfConnNet
	aps *vfAddrPstore
}

type vfAddrPstore struct {
	vfPstore
	addrs map[peer.ID][]ma.Multiaddr
}

func (ps *vfAddrPstore) Addrs(p peer.ID) []ma.Multiaddr { return ps.addrs[p] }
func (ps *vfAddrPstore) PeerInfo(p peer.ID) peer.AddrInfo {
	return peer.AddrInfo{ID: p, Addrs: ps.addrs[p]}
}

func (h *vfFullHost) EventBus() event.Bus            { return h.bus }
func (h *vfFullHost) Network() network.Network       { return h.nw }
func (h *vfFullHost) Peerstore() peerstore.Peerstore { return h.aps }

type vfFakeCrawler struct {
	peers    []peer.ID
	runs     int
	afterRun func() // runs when a crawl has reported everything, before Run returns
}

func (c *vfFakeCrawler) Run(ctx context.Context, _ []*peer.AddrInfo, ok crawler.HandleQueryResult, _ crawler.HandleQueryFail) {
	c.runs++
	for _, p := range c.peers {
		vfYield("crawl")
		ok(p, nil)
	}
	if f := c.afterRun; f != nil {
		c.afterRun = nil
		f()
	}
}

func VfNewFullRT() { vfNewFullRTBody(false) }

// VfFullRTCrawlSwapRace (C16): as VfNewFullRT with a second crawl, plus a
// reader started when that crawl has reported everything, racing with the
// installation of its results under extra context switches.
func VfFullRTCrawlSwapRace() { vfNewFullRTBody(true) }

func vfNewFullRTBody(raced bool) {
	N := vfParam("N")
	vfHashBits(vfParam("W"))
	vfHashFixed()
	K := 1 + vfChoose("K", vfParam("MAXK"))
	limit := vfChoose("limit", 3)
	h := &vfFullHost{bus: &vfBus{}, nw: &vfConnNet{conns: map[peer.ID]bool{}}, aps: &vfAddrPstore{addrs: map[peer.ID][]ma.Multiaddr{}}}
	h.id = peer.ID(vfHashInput("self", nil, 8))
	h.addrs = []ma.Multiaddr{vfGroupAddr(9, 0)}
	cr := &vfFakeCrawler{}
	group := map[peer.ID]int{}
	for i := 0; i < N; i++ {
		p := peer.ID(vfHashInput("p"+strconv.Itoa(i), nil, 8))
		group[p] = vfChoose("group", 2)
		cr.peers = append(cr.peers, p)
		h.aps.addrs[p] = []ma.Multiaddr{vfGroupAddr(group[p], i)}
		h.nw.conns[p] = true
	}
	acc := true
	opts := []Option{WithCrawler(cr), WithIPDiversityFilterLimit(limit)}
	noBucketSize := vfParam("NOBUCKET") == 1 && vfBool("bucketSizeOptionMissing")
	if noBucketSize {
		// a construction option is missing: the hand-built config leaves the bucket size at 0
		opts = append(opts, DHTOption(kaddht.Validator(vfRankValidator{&acc})))
	} else {
		opts = append(opts, DHTOption(kaddht.BucketSize(K), kaddht.Validator(vfRankValidator{&acc})))
	}
	// how construction goes wrong, if at all
	fault := vfChoose("constructorFault", 4)
	switch fault {
	case 1:
		opts = append(opts, WithSuccessWaitFraction(0)) // rejected option
	case 2:
		h.bus.fail = true
	case 3:
		opts = append(opts, WithProviderManagerOptions(func(*records.ProviderManager) error { return errors.New("bad provider option") }))
	}
	d, err := NewFullRT(h, "/vf", opts...)
	if fault != 0 {
		vfAssert(err != nil && d == nil, "fullrt/faulty-construction-is-an-error")
		vfWaitIdle()
		vfAssert(vfLiveGoroutines() == 1, "fullrt/failed-constructor-leaves-no-goroutine")
		vfAssert(h.bus.closed == h.bus.subs, "fullrt/failed-constructor-leaves-no-subscription")
		vfReach("fullrt/new-failed-end")
		return
	}
	vfAssert(err == nil && d != nil, "fullrt/constructor")
	vfWaitIdle() // the initial crawl completes
	vfAssert(cr.runs == 1, "fullrt/initial-crawl-ran-once")
	key := string(vfHashInput("key", nil, 8))
	if noBucketSize {
		// an error or some result, but neither a panic nor a hang
		vfMustFinishWithin(200000)
		_, _ = d.GetClosestPeers(context.Background(), key)
		vfFinished()
		vfAssert(d.Close() == nil, "fullrt/close")
		vfReach("fullrt/new-without-bucket-size-end")
		return
	}
	got, gerr := d.GetClosestPeers(context.Background(), key)
	vfAssert(gerr == nil && len(got) <= K, "fullrt/at-most-K")
	per := map[int]int{}
	for _, p := range got {
		_, crawled := group[p]
		vfAssert(crawled, "fullrt/only-crawled-peers")
		per[group[p]]++
	}
	if limit > 0 {
		vfAssert(per[0] <= limit && per[1] <= limit, "fullrt/at-most-the-configured-number-of-peers-per-ip-group")
	} else {
		want := K
		if N < K {
			want = N
		}
		vfAssert(len(got) == want, "fullrt/limit-disabled-returns-the-K-nearest")
	}
	// a second crawl in which some peers are no longer reported (no failure either)
	if raced || vfBool("secondCrawl") {
		var still []peer.ID
		gone := map[peer.ID]bool{}
		for _, p := range cr.peers {
			if vfBool("secondCrawl.peerStillThere") {
				still = append(still, p)
			} else {
				gone[p] = true
			}
		}
		before, _ := d.GetClosestPeers(context.Background(), key)
		if vfBool("secondCrawl.findsANewPeer") {
			pn := peer.ID(vfHashInput("pnew", nil, 8))
			group[pn] = vfChoose("group", 2)
			h.aps.addrs[pn] = []ma.Multiaddr{vfGroupAddr(group[pn], N)}
			h.nw.conns[pn] = true
			still = append(still, pn)
		}
		cr.peers = still
		var during []peer.ID
		if raced {
			// a reader racing with the swap of the crawl results
			cr.afterRun = func() {
				vfSchedBudget(vfParam("SWITCH"))
				go func() { during, _ = d.GetClosestPeers(context.Background(), key) }()
			}
		}
		vfAssert(d.TriggerRefresh(context.Background()) == nil, "fullrt/trigger-refresh")
		vfWaitIdle()
		vfSchedBudget(0)
		if raced && limit == 0 {
			after, _ := d.GetClosestPeers(context.Background(), key)
			same := func(a, b []peer.ID) bool {
				if len(a) != len(b) {
					return false
				}
				for i := range a {
					if a[i] != b[i] {
						return false
					}
				}
				return true
			}
			vfAssert(same(during, before) || same(during, after), "fullrt/a-concurrent-reader-sees-the-result-of-one-single-completed-crawl")
		}
		vfAssert(cr.runs == 2, "fullrt/second-crawl-ran")
		got2, gerr2 := d.GetClosestPeers(context.Background(), key)
		vfAssert(gerr2 == nil, "fullrt/closest-no-error")
		for _, p := range got2 {
			vfAssert(!gone[p], "fullrt/result-lists-only-peers-of-the-latest-completed-crawl")
		}
		if limit == 0 {
			want := K
			if len(still) < K {
				want = len(still)
			}
			vfAssert(len(got2) == want, "fullrt/limit-disabled-returns-the-K-nearest")
		}
		for p := range d.Stat() {
			_ = p
		}
		vfAssert(len(d.Stat()) == len(still), "fullrt/table-holds-exactly-the-peers-of-the-latest-crawl")
	}
	vfAssert(d.Close() == nil, "fullrt/close")
	vfAssert(vfLiveGoroutines() == 1, "fullrt/close-returns-after-every-goroutine-exited")
	vfAssert(h.bus.closed == h.bus.subs, "fullrt/close-ends-the-subscription")
	vfAssert(d.Close() == nil, "fullrt/close-may-be-called-again")
	vfReach("fullrt/new-end")
}

var _ = vfRegister("VfNewFullRT", VfNewFullRT)
var _ = vfRegister("VfFullRTCrawlSwapRace", VfFullRTCrawlSwapRace)
