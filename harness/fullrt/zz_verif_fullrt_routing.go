//go:build verif

package fullrt

import (
	"context"
	"errors"
	"strconv"
	"sync"
	"time"

	"github.com/ipfs/go-cid"
	ds "github.com/ipfs/go-datastore"
	dssync "github.com/ipfs/go-datastore/sync"
	kaddht "github.com/libp2p/go-libp2p-kad-dht"
	recpb "github.com/libp2p/go-libp2p-record/pb"
	"github.com/libp2p/go-libp2p/core/network"
	"github.com/libp2p/go-libp2p/core/peer"
	"github.com/libp2p/go-libp2p/core/routing"
	ma "github.com/multiformats/go-multiaddr"
	mhpkg "github.com/multiformats/go-multihash"

	dht_pb "github.com/libp2p/go-libp2p-kad-dht/pb"
	"github.com/libp2p/go-libp2p-kad-dht/records"
)

// the accelerated client's routing API (C04, C06, C08) on a crawled table of
// P peers whose answers are arbitrary.

type vfNet struct {
	network.Network
}

func (vfNet) Connectedness(peer.ID) network.Connectedness { return network.NotConnected }

func (h *vfHost) Network() network.Network { return vfNet{} }

// vfRankValidator: value = (flag, rank); flag 1 valid, 0 invalid, 2 valid only
// while *accepting2.
type vfRankValidator struct{ accepting2 *bool }

func (v vfRankValidator) Validate(key string, value []byte) error {
	if len(value) != 2 {
		return errors.New("invalid record")
	}
	if value[0] == 1 || (value[0] == 2 && *v.accepting2) {
		return nil
	}
	return errors.New("invalid record")
}

func (v vfRankValidator) Select(key string, vals [][]byte) (int, error) {
	if len(vals) == 0 {
		return 0, errors.New("no values")
	}
	best := 0
	for i, x := range vals {
		if len(x) == 2 && len(vals[best]) == 2 && x[1] > vals[best][1] {
			best = i
		}
	}
	return best, nil
}

// vfFailDS: a datastore whose writes can be made to fail.
type vfFailDS struct {
	ds.Batching
	failPut bool
}

func (d *vfFailDS) Put(ctx context.Context, k ds.Key, v []byte) error {
	if d.failPut {
		return errors.New("datastore write failed")
	}
	return d.Batching.Put(ctx, k, v)
}

func vfValidFlag(flag byte, accepting2 bool) bool {
	return flag == 1 || (flag == 2 && accepting2)
}

type vfSent struct {
	to  peer.ID
	msg *dht_pb.Message
}

func vfFullRTClient(P int) (*FullRT, *vfHost, *vfSender, []peer.ID, *bool) {
	d, h, snd := vfNewFullRT(P+1, 0)
	acc := true
	d.Validator = vfRankValidator{&acc}
	pm, err := records.NewProviderManager(d.self, &vfPstore{}, dssync.MutexWrap(ds.NewMapDatastore()), records.CleanupInterval(0))
	vfAssert(err == nil, "fullrt/setup")
	d.ProviderManager = pm
	d.valueStore = records.NewValueStore(dssync.MutexWrap(ds.NewMapDatastore()), d.Validator, 0)
	ids := make([]peer.ID, P)
	for i := range ids {
		ids[i] = peer.ID(vfHashInput("p"+strconv.Itoa(i), nil, 8))
		d.vfCrawled(ids[i], []ma.Multiaddr{vfGroupAddr(i, i)})
	}
	return d, h, snd, ids, &acc
}

// VfFullRTSearchValue (C04, C06 corrective puts on the accelerated client).
func VfFullRTSearchValue() {
	P := vfParam("P")
	vfHashBits(vfParam("W"))
	vfHashFixed()
	vfSchedBudget(vfParam("SWITCH"))
	if vfBool("tableIsEmpty") {
		P = 0 // nothing crawled yet: the search must still end (with the local value or not-found)
	}
	d, _, snd, ids, accepting2 := vfFullRTClient(P)
	key := string(vfHashInput("key", []byte("/vf/"), 4))
	ctx := context.Background()
	val := d.Validator

	localRank := vfU8("local.rank")
	localKind := vfChoose("local.kind", 3)
	switch localKind {
	case 1:
		vfAssert(d.valueStore.Put(ctx, key, &recpb.Record{Key: []byte(key), Value: []byte{1, localRank}}) == nil, "fullrt/setup")
	case 2:
		vfAssert(d.valueStore.Put(ctx, key, &recpb.Record{Key: []byte(key), Value: []byte{2, localRank}}) == nil, "fullrt/setup")
		*accepting2 = false
	}
	type answer struct {
		fails, hasRec, keyOK bool
		flag, rank           byte
	}
	ans := map[peer.ID]*answer{}
	var puts []vfSent
	vissued := 0
	delivered := map[peer.ID]int{}
	vAllOut := make(chan struct{})
	var vmu sync.Mutex
	snd.reply = func(rctx context.Context, p peer.ID, req *dht_pb.Message) (*dht_pb.Message, error) {
		switch req.Type {
		case dht_pb.Message_GET_VALUE:
			// every crawled peer is asked at once: answers start when all requests are out
			vmu.Lock()
			vissued++
			if vissued == P {
				close(vAllOut)
			}
			vmu.Unlock()
			<-vAllOut
			vmu.Lock()
			defer vmu.Unlock()
			a := ans[p]
			if a == nil {
				a = &answer{}
				ans[p] = a
				a.fails = vfBool("peer.fails")
				if !a.fails {
					a.hasRec = vfBool("peer.hasRecord")
					if a.hasRec {
						a.keyOK = vfBool("peer.recordKeyMatches")
						// invalid (0), valid (1), or the other byte encoding (2): valid too - so that
						// two byte-different records can rank equally - unless the validator has
						// stopped accepting it, in which case it is what a stale local copy looks like
						a.flag = byte(vfChoose("peer.recordFlag", 3))
						a.rank = vfU8("peer.rank")
					}
				}
			}
			if a.fails {
				return nil, errors.New("rpc failed")
			}
			resp := dht_pb.NewMessage(dht_pb.Message_GET_VALUE, req.Key, 0)
			if a.hasRec {
				k := []byte(key)
				if !a.keyOK {
					k = []byte("/vf/other")
				}
				resp.Record = &recpb.Record{Key: k, Value: []byte{a.flag, a.rank}}
			}
			return resp, nil
		case dht_pb.Message_PUT_VALUE:
			vmu.Lock()
			puts = append(puts, vfSent{p, req})
			vmu.Unlock()
			// the put takes a moment on the wire and is lost if it is abandoned meanwhile
			t := time.NewTimer(10 * time.Millisecond)
			defer t.Stop()
			select {
			case <-t.C:
			case <-rctx.Done():
				return nil, rctx.Err()
			}
			vmu.Lock()
			delivered[p]++
			vmu.Unlock()
			return req, nil
		}
		return nil, errors.New("unexpected request")
	}
	var opts []routing.Option
	vfQuorumOne := vfBool("quorumOne")
	if vfQuorumOne {
		opts = append(opts, kaddht.Quorum(1))
	} else {
		opts = append(opts, kaddht.Quorum(0))
	}
	var streamed [][]byte
	slowConsumer := vfBool("consumerIsSlow")
	viaGet := vfBool("useGetValue")
	if viaGet {
		best, err := d.GetValue(ctx, key, opts...)
		if err == nil {
			vfAssert(best != nil, "fullrt/getvalue-success-has-a-value")
			streamed = append(streamed, best)
		} else {
			vfAssert(best == nil, "fullrt/getvalue-error-has-no-value")
		}
	} else {
		ch, err := d.SearchValue(ctx, key, opts...)
		vfAssert(err == nil && ch != nil, "fullrt/search-starts")
		for v := range ch {
			streamed = append(streamed, v)
			if slowConsumer {
				vfAdvance(time.Millisecond)
			}
		}
	}
	vfAdvance(time.Second)
	vfWaitIdle()
	for i, v := range streamed {
		vfAssert(val.Validate(key, v) == nil, "fullrt/only-validator-approved-values-are-yielded")
		if i > 0 {
			vfAssert(v[1] > streamed[i-1][1], "fullrt/streamed-values-strictly-improve")
		}
	}
	// every valid value that anybody supplied
	anyValid := localKind == 1
	for _, p := range ids {
		if a := ans[p]; a != nil && !a.fails && a.hasRec && a.keyOK && vfValidFlag(a.flag, *accepting2) {
			anyValid = true
		}
	}
	if !anyValid {
		vfAssert(len(streamed) == 0, "fullrt/not-found-when-no-valid-value-was-supplied")
	}
	if localKind == 1 {
		// the local value enters the search first: the final value is at least as good
		vfAssert(len(streamed) > 0 && streamed[len(streamed)-1][1] >= localRank, "fullrt/final-value-at-least-as-good-as-the-valid-local-value")
	}
	if !vfQuorumOne && !viaGet {
		// every answer was received and validated: its value entered the search
		for _, p := range ids {
			if a := ans[p]; a != nil && !a.fails && a.hasRec && a.keyOK && vfValidFlag(a.flag, *accepting2) {
				ok := len(streamed) > 0 && streamed[len(streamed)-1][1] >= a.rank
				vfAssert(ok, "fullrt/final-value-at-least-as-good-as-every-valid-value-of-a-received-answer")
			}
		}
	}
	if len(streamed) > 0 {
		// the final value was supplied by somebody
		last := streamed[len(streamed)-1]
		supplied := localKind == 1 && last[1] == localRank
		for _, p := range ids {
			if a := ans[p]; a != nil && !a.fails && a.hasRec && a.keyOK && vfValidFlag(a.flag, *accepting2) && a.rank == last[1] {
				supplied = true
			}
		}
		vfAssert(supplied, "fullrt/final-value-was-supplied-by-local-storage-or-a-peer")
		// corrective puts carry the final value and never go to a peer that returned it
		for _, s := range puts {
			vfAssert(string(s.msg.GetRecord().GetKey()) == key, "fullrt/corrective-put-has-the-requested-key")
			if !viaGet {
				vfAssert(s.msg.GetRecord().GetValue()[1] == last[1], "fullrt/corrective-put-carries-the-best-value")
			}
			a := ans[s.to]
			// "returned the best value" = returned these very bytes (an equally ranked
			// but different record is not the best value and is rightly replaced)
			returnedBest := a != nil && !a.fails && a.hasRec && a.keyOK && vfValidFlag(a.flag, *accepting2) && a.rank == last[1] && a.flag == last[0]
			vfAssert(!returnedBest, "fullrt/peers-that-returned-the-best-value-are-not-corrected")
			n := 0
			for _, t := range puts {
				if t.to == s.to {
					n++
				}
			}
			vfAssert(n == 1, "fullrt/at-most-one-corrective-put-per-peer")
			vfAssert(delivered[s.to] == 1, "fullrt/corrective-puts-are-not-abandoned-by-the-search-itself")
		}
	} else {
		vfAssert(len(puts) == 0, "fullrt/no-corrective-put-without-a-value")
	}
	_ = d.ProviderManager.Close()
	vfWaitIdle()
	vfAssert(vfLiveGoroutines() == 1, "fullrt/search-no-goroutine-left-behind")
	vfReach("fullrt/search-end")
}

// VfFullRTFindProviders (C08 on the accelerated client).
func VfFullRTFindProviders() {
	P := vfParam("P")
	vfHashBits(vfParam("W"))
	vfHashFixed()
	vfSchedBudget(vfParam("SWITCH"))
	d, _, snd, _, _ := vfFullRTClient(P)
	ctx, cancel := context.WithCancel(context.Background())
	defer cancel()
	mh := mhpkg.Multihash(vfHashInput("content", []byte{0x12, 0x20}, 32))
	c := cid.NewCidV1(cid.Raw, mh)
	count := vfChoose("count", vfParam("MAXCOUNT")+1)
	cand := []peer.ID{peer.ID("prov-a"), peer.ID("prov-b"), peer.ID("prov-c")}
	nLocal := vfChoose("nLocal", vfParam("MAXLOCAL")+1)
	localNamed := map[peer.ID]bool{}
	for i := 0; i < nLocal; i++ {
		vfAssert(d.ProviderManager.AddProvider(ctx, mh, peer.AddrInfo{ID: cand[i]}) == nil, "fullrt/setup")
		localNamed[cand[i]] = true
	}
	named := map[peer.ID]bool{}
	answered, issued := 0, 0
	allOut := make(chan struct{})
	var mu sync.Mutex
	snd.reply = func(rctx context.Context, p peer.ID, req *dht_pb.Message) (*dht_pb.Message, error) {
		if req.Type != dht_pb.Message_GET_PROVIDERS {
			return nil, errors.New("unexpected request")
		}
		// every crawled peer is asked at once: answers start when all requests are
		// out (this also makes the native replay independent of goroutine start order)
		mu.Lock()
		issued++
		if issued == P {
			close(allOut)
		}
		mu.Unlock()
		<-allOut
		mu.Lock()
		defer mu.Unlock()
		if vfBool("peer.fails") {
			return nil, errors.New("rpc failed")
		}
		answered++
		resp := dht_pb.NewMessage(dht_pb.Message_GET_PROVIDERS, req.Key, 0)
		n := vfChoose("peer.nProviders", vfParam("R")+1)
		for i := 0; i < n; i++ {
			id := cand[vfChoose("peer.provider", len(cand))]
			rec := &dht_pb.Message_Peer{Id: []byte(id)}
			rec.Addrs = [][]byte{vfGroupAddr(7, i).Bytes()}
			named[id] = true
			resp.ProviderPeers = append(resp.ProviderPeers, rec)
		}
		return resp, nil
	}
	ch := d.FindProvidersAsync(ctx, c, count)
	cancelAfter := -1
	if vfParam("CANCEL") == 1 && vfBool("cancelEarly") {
		cancelAfter = vfChoose("cancelAfter", 2)
	}
	var yielded []peer.AddrInfo
	slowConsumer := vfBool("consumerIsSlow")
	for ai := range ch {
		yielded = append(yielded, ai)
		if len(yielded)-1 == cancelAfter {
			cancel()
		}
		if slowConsumer {
			vfAdvance(time.Millisecond)
		}
	}
	vfWaitIdle()
	distinct := map[peer.ID]int{}
	for _, ai := range yielded {
		vfAssert(localNamed[ai.ID] || named[ai.ID], "fullrt/only-stored-or-reported-providers")
		distinct[ai.ID]++
		vfAssert(distinct[ai.ID] == 1, "fullrt/no-provider-is-repeated")
	}
	if count > 0 {
		vfAssert(len(distinct) <= count, "fullrt/at-most-count-distinct-providers")
	} else if cancelAfter < 0 {
		for id := range localNamed {
			vfAssert(distinct[id] > 0, "fullrt/count-0-yields-every-stored-provider")
		}
		for id := range named {
			if answered == 1 {
				vfAssert(distinct[id] > 0, "fullrt/count-0-yields-every-provider-named-in-a-received-answer")
			} else if slowConsumer {
				vfAssert(distinct[id] > 0, "fullrt/count-0-yields-every-provider-named-in-a-received-answer(several answers, slow consumer)")
			} else {
				vfAssert(distinct[id] > 0, "fullrt/count-0-yields-every-provider-named-in-a-received-answer(several answers)")
			}
		}
	}
	_ = d.ProviderManager.Close()
	vfWaitIdle()
	vfAssert(vfLiveGoroutines() == 1, "fullrt/findproviders-no-goroutine-left-behind")
	vfReach("fullrt/findproviders-end")
}

// VfFullRTPutProvide (C06 on the accelerated client): local store first, one
// message with the right content per closest peer, failures do not stop others.
func VfFullRTPutProvide() {
	P := vfParam("P")
	vfHashBits(vfParam("W"))
	vfHashFixed()
	vfSchedBudget(vfParam("SWITCH"))
	d, h, snd, ids, _ := vfFullRTClient(P)
	ctx := context.Background()
	var sent []vfSent
	localAtFirstRPC := -1
	isPut := vfBool("putValue")
	key := string(vfHashInput("key", []byte("/vf/"), 4))
	mh := mhpkg.Multihash(vfHashInput("content", []byte{0x12, 0x20}, 32))
	c := cid.NewCidV1(cid.Raw, mh)
	snd.reply = func(_ context.Context, p peer.ID, req *dht_pb.Message) (*dht_pb.Message, error) {
		if localAtFirstRPC < 0 {
			localAtFirstRPC = 0
			if isPut {
				if rec, err := d.valueStore.Get(context.Background(), key); err == nil && rec != nil {
					localAtFirstRPC = 1
				}
			} else {
				provs, _ := d.ProviderManager.GetProviders(context.Background(), mh)
				for _, ai := range provs {
					if ai.ID == d.self {
						localAtFirstRPC = 1
					}
				}
			}
		}
		sent = append(sent, vfSent{p, req})
		if vfBool("peer.fails") {
			return nil, errors.New("rpc failed")
		}
		return req, nil
	}
	var closest []peer.ID
	var err error
	if isPut && vfBool("localStoreWriteFails") {
		fds := &vfFailDS{Batching: dssync.MutexWrap(ds.NewMapDatastore()), failPut: true}
		d.valueStore = records.NewValueStore(fds, d.Validator, 0)
		err = d.PutValue(ctx, key, []byte{1, 7})
		vfWaitIdle()
		vfAssert(err != nil, "fullrt/put-fails-when-the-record-cannot-be-stored-locally")
		vfAssert(len(sent) == 0, "fullrt/nothing-is-sent-for-a-record-that-is-not-stored-locally")
		_ = d.ProviderManager.Close()
		vfWaitIdle()
		vfReach("fullrt/put-local-failure-end")
		return
	}
	if isPut {
		rank := vfU8("rank")
		err = d.PutValue(ctx, key, []byte{1, rank})
		closest, _ = d.GetClosestPeers(ctx, key)
		vfWaitIdle()
		for _, s := range sent {
			vfAssert(s.msg.Type == dht_pb.Message_PUT_VALUE && string(s.msg.GetRecord().GetKey()) == key &&
				len(s.msg.GetRecord().GetValue()) == 2 && s.msg.GetRecord().GetValue()[1] == rank, "fullrt/put-sends-the-same-record")
		}
		rec, gerr := d.valueStore.Get(ctx, key)
		vfAssert(gerr == nil && rec != nil && rec.GetValue()[1] == rank, "fullrt/put-stored-locally")
	} else {
		if vfBool("noAddrs") {
			h.addrs = nil
		}
		err = d.Provide(ctx, c, true)
		closest, _ = d.GetClosestPeers(ctx, string(mh))
		vfWaitIdle()
		for _, s := range sent {
			ok := s.msg.Type == dht_pb.Message_ADD_PROVIDER && string(s.msg.Key) == string(mh) && len(s.msg.ProviderPeers) == 1
			if ok {
				pp := s.msg.ProviderPeers[0]
				ok = string(pp.Id) == string(d.self) && len(pp.Addrs) > 0
			}
			vfAssert(ok, "fullrt/add-provider-names-exactly-self-with-non-empty-addresses")
		}
		if len(h.addrs) == 0 {
			vfAssert(len(sent) == 0, "fullrt/no-announcement-without-addresses")
		}
	}
	if len(sent) > 0 {
		vfAssert(localAtFirstRPC == 1, "fullrt/stored-locally-before-the-first-message")
	}
	if isPut || len(h.addrs) > 0 {
		for _, p := range closest {
			n := 0
			for _, s := range sent {
				if s.to == p {
					n++
				}
			}
			vfAssert(n == 1, "fullrt/every-closest-peer-is-sent-exactly-one-message")
		}
		vfAssert(len(sent) == len(closest), "fullrt/only-closest-peers-are-sent-messages")
	}
	vfAssert(len(closest) == len(ids), "fullrt/all-crawled-peers-are-closest")
	_ = err
	_ = d.ProviderManager.Close()
	vfWaitIdle()
	vfAssert(vfLiveGoroutines() == 1, "fullrt/put-no-goroutine-left-behind")
	vfReach("fullrt/put-end")
}

var _ = vfRegister("VfFullRTSearchValue", VfFullRTSearchValue)
var _ = vfRegister("VfFullRTFindProviders", VfFullRTFindProviders)
var _ = vfRegister("VfFullRTPutProvide", VfFullRTPutProvide)

// VfFullRTFindPeer (C03): the accelerated client's FindPeer fan-out with fast,
// late and failing peers, any of which may name the target: it returns, does
// not panic on late answers, and leaves no goroutine.
func VfFullRTFindPeer() {
	P := vfParam("P")
	vfHashBits(vfParam("W"))
	vfHashFixed()
	d, _, snd, _, _ := vfFullRTClient(P)
	target := peer.ID(vfHashInput("target", nil, 8))
	ctx := context.Background()
	named := false
	var mu sync.Mutex
	snd.reply = func(rctx context.Context, p peer.ID, req *dht_pb.Message) (*dht_pb.Message, error) {
		if req.Type != dht_pb.Message_FIND_NODE {
			return nil, errors.New("unexpected request")
		}
		mu.Lock()
		fails := vfBool("peer.fails")
		late := vfBool("peer.answersLate")
		names := vfBool("peer.namesTheTarget")
		mu.Unlock()
		if fails {
			return nil, errors.New("rpc failed")
		}
		if late {
			// answers after a second, also if the request was abandoned meanwhile
			time.Sleep(time.Second)
		}
		resp := dht_pb.NewMessage(dht_pb.Message_FIND_NODE, req.Key, 0)
		if names {
			mu.Lock()
			named = true
			mu.Unlock()
			resp.CloserPeers = []*dht_pb.Message_Peer{{Id: []byte(target), Addrs: [][]byte{vfGroupAddr(5, 1).Bytes()}}}
		}
		return resp, nil
	}
	pi, err := d.FindPeer(ctx, target)
	vfAdvance(5 * time.Second)
	vfWaitIdle()
	if err == nil {
		vfAssert(pi.ID == target && named, "fullrt/findpeer-returns-the-target-only-if-somebody-named-it")
	}
	_ = d.ProviderManager.Close()
	vfWaitIdle()
	vfAssert(vfLiveGoroutines() == 1, "fullrt/findpeer-no-goroutine-left-behind")
	vfReach("fullrt/findpeer-end")
}

var _ = vfRegister("VfFullRTFindPeer", VfFullRTFindPeer)
