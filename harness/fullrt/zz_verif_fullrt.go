//go:build verif

package fullrt

import (
	"context"
	"errors"
	"net"
	"strconv"
	"time"

	ds "github.com/ipfs/go-datastore"
	dssync "github.com/ipfs/go-datastore/sync"
	kb "github.com/libp2p/go-libp2p-kbucket"
	"github.com/libp2p/go-libp2p-kbucket/peerdiversity"
	recpb "github.com/libp2p/go-libp2p-record/pb"
	"github.com/libp2p/go-libp2p-xor/trie"
	"github.com/libp2p/go-libp2p/core/connmgr"
	"github.com/libp2p/go-libp2p/core/host"
	"github.com/libp2p/go-libp2p/core/peer"
	"github.com/libp2p/go-libp2p/core/peerstore"
	ma "github.com/multiformats/go-multiaddr"
	mhpkg "github.com/multiformats/go-multihash"

	kadkey "github.com/libp2p/go-libp2p-xor/key"

	dht_pb "github.com/libp2p/go-libp2p-kad-dht/pb"
	"github.com/libp2p/go-libp2p-kad-dht/records"
)

type vfHost struct {
	host.Host
	id    peer.ID
	ps    *vfPstore
	addrs []ma.Multiaddr
	cm    connmgr.NullConnMgr
}

type vfPstore struct {
	peerstore.Peerstore
	added []peer.ID
}

func (ps *vfPstore) AddAddrs(p peer.ID, _ []ma.Multiaddr, _ time.Duration) {
	ps.added = append(ps.added, p)
}
func (ps *vfPstore) PeerInfo(p peer.ID) peer.AddrInfo { return peer.AddrInfo{ID: p} }

func (h *vfHost) ID() peer.ID                                  { return h.id }
func (h *vfHost) Peerstore() peerstore.Peerstore               { return h.ps }
func (h *vfHost) Addrs() []ma.Multiaddr                        { return h.addrs }
func (h *vfHost) ConnManager() connmgr.ConnManager             { return h.cm }
func (h *vfHost) Connect(context.Context, peer.AddrInfo) error { return nil }

// vfModelIPGroupKey: IPv4 /16 grouping (the harness only uses IPv4 addresses).
func vfModelIPGroupKey(ip net.IP) peerdiversity.PeerIPGroupKey {
	b := ip.To4()
	if b == nil {
		return ""
	}
	return peerdiversity.PeerIPGroupKey(strconv.Itoa(int(b[0])) + "." + strconv.Itoa(int(b[1])))
}

//verif:intercept * github.com/libp2p/go-libp2p-kbucket/peerdiversity.IPGroupKey = vfModelIPGroupKey

func vfGroupAddr(group, host int) ma.Multiaddr {
	a, err := ma.NewMultiaddrBytes([]byte{4, 20, byte(group), 0, byte(host + 1), 6, 0x0f, 0xa1})
	if err != nil {
		panic(err)
	}
	return a
}

type vfSender struct {
	reply func(ctx context.Context, p peer.ID, m *dht_pb.Message) (*dht_pb.Message, error)
	sent  int
}

func (s *vfSender) SendRequest(ctx context.Context, p peer.ID, m *dht_pb.Message) (*dht_pb.Message, error) {
	s.sent++
	return s.reply(ctx, p, m)
}
func (s *vfSender) SendMessage(ctx context.Context, p peer.ID, m *dht_pb.Message) error {
	s.sent++
	_, err := s.reply(ctx, p, m)
	return err
}

func vfNewFullRT(K, limit int) (*FullRT, *vfHost, *vfSender) {
	h := &vfHost{id: peer.ID(vfHashInput("self", nil, 8)), ps: &vfPstore{}, addrs: []ma.Multiaddr{vfGroupAddr(9, 0)}}
	snd := &vfSender{reply: func(context.Context, peer.ID, *dht_pb.Message) (*dht_pb.Message, error) {
		return nil, errors.New("no script")
	}}
	pm, _ := dht_pb.NewProtocolMessenger(snd)
	ctx, cancel := context.WithCancel(context.Background())
	d := &FullRT{ctx: ctx, cancel: cancel, h: h, rt: trie.New(), keyToPeerMap: map[string]peer.ID{}, peerAddrs: map[peer.ID][]ma.Multiaddr{},
		bucketSize: K, ipDiversityFilterLimit: limit, self: h.id, protoMessenger: pm, messageSender: snd,
		waitFrac: 0.3, timeoutPerOp: 5 * time.Second, bulkSendParallelism: 2, shuffle: func(int, func(int, int)) {}}
	return d, h, snd
}

func (d *FullRT) vfCrawled(p peer.ID, addrs []ma.Multiaddr) {
	k := kadkey.KbucketIDToKey(kb.ConvertPeerID(p))
	d.rt.Add(k)
	d.keyToPeerMap[string(k)] = p
	d.peerAddrs[p] = addrs
}

func vfDistLess(key string, a, b peer.ID) bool {
	hk, ha, hb := vfHash([]byte(key)), vfHash([]byte(a)), vfHash([]byte(b))
	lt := false
	eq := true
	for i := range hk {
		da, db := hk[i]^ha[i], hk[i]^hb[i]
		lt = vfOr(lt, vfAnd(eq, da < db))
		eq = vfAnd(eq, da == db)
	}
	return lt
}

// VfFullRTClosest (C16-H1): nearest crawled peers with the per-group limit.
func VfFullRTClosest() {
	N := vfParam("N")
	vfHashBits(vfParam("W"))
	if vfParam("CONCRETE") == 1 {
		vfHashConcrete()
	}
	K := 1 + vfChoose("K", vfParam("MAXK"))
	limit := vfChoose("limit", 3)
	d, h, _ := vfNewFullRT(K, limit)
	n := vfChoose("crawled", N+1)
	ids := make([]peer.ID, n)
	group := make([]int, n)
	for i := range ids {
		ids[i] = peer.ID(vfHashInput("p"+strconv.Itoa(i), nil, 8))
		group[i] = vfChoose("group", 2)
		d.vfCrawled(ids[i], []ma.Multiaddr{vfGroupAddr(group[i], i)})
	}
	key := string(vfHashInput("key", nil, 8))

	got, err := d.GetClosestPeers(context.Background(), key)

	vfAssert(err == nil, "fullrt/closest-no-error")
	vfAssert(len(got) <= K, "fullrt/at-most-K")
	idx := func(p peer.ID) int {
		for i, x := range ids {
			if x == p {
				return i
			}
		}
		return -1
	}
	perGroup := map[int]int{}
	seen := map[peer.ID]bool{}
	for j, p := range got {
		i := idx(p)
		vfAssert(i >= 0 && !seen[p], "fullrt/only-crawled-peers-each-once")
		seen[p] = true
		if i >= 0 {
			perGroup[group[i]]++
		}
		if j > 0 {
			vfAssert(vfDistLess(key, got[j-1], p), "fullrt/ascending-xor-distance")
		}
	}
	total := map[int]int{}
	for i := range ids {
		total[group[i]]++
	}
	over := false
	for g, c := range total {
		if limit > 0 {
			vfAssert(perGroup[g] <= limit, "fullrt/at-most-limit-peers-per-ip-group")
			if c > limit {
				over = true
			}
		}
	}
	if limit == 0 || !over {
		want := K
		if n < K {
			want = n
		}
		vfAssert(len(got) == want, "fullrt/exactly-the-K-nearest-when-no-group-exceeds-the-limit")
		for _, x := range ids {
			if !seen[x] {
				for _, p := range got {
					vfAssert(vfDistLess(key, p, x), "fullrt/exactly-the-K-nearest-when-no-group-exceeds-the-limit")
				}
			}
		}
	}
	_ = h
	vfReach("fullrt/closest-end")
}

// VfFullRTBulk (C16-H2): bulk operations on an empty or tiny crawled table
// return (an error or normally) - no panic, no hang.
func VfFullRTBulk() {
	vfHashBits(vfParam("W"))
	vfHashConcrete()
	d, _, snd := vfNewFullRT(2, 0)
	pm, err := records.NewProviderManager(d.self, &vfPstore{}, dssync.MutexWrap(ds.NewMapDatastore()), records.CleanupInterval(0))
	vfAssert(err == nil, "fullrt/setup")
	d.ProviderManager = pm
	d.valueStore = records.NewValueStore(dssync.MutexWrap(ds.NewMapDatastore()), nil, 0)
	n := vfChoose("crawled", vfParam("N")+1)
	for i := 0; i < n; i++ {
		p := peer.ID(vfHashInput("p"+strconv.Itoa(i), nil, 8))
		d.vfCrawled(p, []ma.Multiaddr{vfGroupAddr(i, i)})
	}
	snd.reply = func(_ context.Context, p peer.ID, m *dht_pb.Message) (*dht_pb.Message, error) {
		if vfBool("rpcFails") {
			return nil, errors.New("rpc failed")
		}
		return m, nil
	}
	ctx := context.Background()
	nk := 1 + vfChoose("keys", 2)
	if vfBool("provideMany") {
		var keys [][]byte
		_ = keys
		mhs := make([]string, nk)
		for i := range mhs {
			mhs[i] = string(vfHashInput("mh"+strconv.Itoa(i), []byte{0x12, 0x20}, 32))
		}
		err := d.ProvideMany(ctx, vfMultihashes(mhs))
		if n == 0 {
			vfAssert(err != nil, "fullrt/bulk-provide-on-empty-table-is-an-error")
		}
	} else {
		keys := make([]string, nk)
		vals := make([][]byte, nk)
		for i := range keys {
			keys[i] = string(vfHashInput("k"+strconv.Itoa(i), []byte("/vf/"), 4))
			vals[i] = []byte{1, byte(i)}
		}
		err := d.PutMany(ctx, keys, vals)
		if n == 0 {
			vfAssert(err != nil, "fullrt/bulk-put-on-empty-table-is-an-error")
		}
	}
	_ = pm.Close()
	vfWaitIdle()
	vfAssert(vfLiveGoroutines() == 1, "fullrt/bulk-no-goroutine-left")
	vfReach("fullrt/bulk-end")
	_ = recpb.Record{}
}

// VfFullRTClosestPaged (C16-H1b): larger tables, so that the walk over the
// nearest keys needs several batches; one fixed placement of the identifiers,
// arbitrary group membership. Oracle: walk all peers by ascending distance and
// accept a peer iff its group still has room, until K are accepted.
func VfFullRTClosestPaged() {
	N := vfParam("N")
	vfHashBits(vfParam("W"))
	vfHashFixed()
	K := 1 + vfChoose("K", vfParam("MAXK"))
	limit := 1 + vfChoose("limit", 2)
	d, _, _ := vfNewFullRT(K, limit)
	ids := make([]peer.ID, N)
	group := map[peer.ID]int{}
	for i := range ids {
		ids[i] = peer.ID(vfHashInput("p"+strconv.Itoa(i), nil, 8))
		group[ids[i]] = vfChoose("group", 2)
		d.vfCrawled(ids[i], []ma.Multiaddr{vfGroupAddr(group[ids[i]], i)})
	}
	key := string(vfHashInput("key", nil, 8))
	got, err := d.GetClosestPeers(context.Background(), key)
	vfAssert(err == nil, "fullrt/closest-no-error")
	sorted := append([]peer.ID{}, ids...)
	for i := range sorted {
		for j := i + 1; j < len(sorted); j++ {
			if vfDistLess(key, sorted[j], sorted[i]) {
				sorted[i], sorted[j] = sorted[j], sorted[i]
			}
		}
	}
	var want []peer.ID
	count := map[int]int{}
	for _, p := range sorted {
		if len(want) == K {
			break
		}
		if count[group[p]] >= limit {
			continue
		}
		count[group[p]]++
		want = append(want, p)
	}
	ok := len(got) == len(want)
	for i := range want {
		if ok && got[i] != want[i] {
			ok = false
		}
	}
	vfAssert(ok, "fullrt/nearest-peers-with-room-in-their-ip-group-in-ascending-order")
	vfReach("fullrt/closest-paged-end")
}

var _ = vfRegister("VfFullRTClosest", VfFullRTClosest)
var _ = vfRegister("VfFullRTClosestPaged", VfFullRTClosestPaged)
var _ = vfRegister("VfFullRTBulk", VfFullRTBulk)

func vfMultihashes(ss []string) []mhpkg.Multihash {
	out := make([]mhpkg.Multihash, len(ss))
	for i, s := range ss {
		out[i] = mhpkg.Multihash(s)
	}
	return out
}
