//go:build verif

package records

import (
	"context"
	"errors"
	"time"

	ds "github.com/ipfs/go-datastore"
	dsq "github.com/ipfs/go-datastore/query"
	recpb "github.com/libp2p/go-libp2p-record/pb"
	"google.golang.org/protobuf/proto"
)

// vfValidator: a record value is two bytes (valid flag, rank); Select picks the
// highest rank (first on ties), as the Validator contract allows.
type vfValidator struct{}

func (vfValidator) Validate(key string, value []byte) error {
	if len(value) != 2 || value[0] != 1 {
		return errors.New("invalid record")
	}
	return nil
}

func (vfValidator) Select(key string, vals [][]byte) (int, error) {
	if len(vals) == 0 {
		return 0, errors.New("no values")
	}
	best := 0
	for i, v := range vals {
		if len(v) == 2 && len(vals[best]) == 2 && v[1] > vals[best][1] {
			best = i
		}
	}
	return best, nil
}

// vfJournalDS wraps a datastore: scheduling point at each access, journal of writes.
type vfJournalDS struct {
	ds.Datastore
	puts    []vfWrite
	deletes []string
	fail    bool
	closed  bool
	touched int
}

type vfWrite struct {
	key string
	val []byte
}

func (d *vfJournalDS) Get(ctx context.Context, k ds.Key) ([]byte, error) {
	d.touched++
	vfYield("ds.Get")
	return d.Datastore.Get(ctx, k)
}
func (d *vfJournalDS) Has(ctx context.Context, k ds.Key) (bool, error) {
	d.touched++
	vfYield("ds.Has")
	return d.Datastore.Has(ctx, k)
}
func (d *vfJournalDS) Put(ctx context.Context, k ds.Key, v []byte) error {
	d.touched++
	vfYield("ds.Put")
	if d.fail {
		return errors.New("datastore write failed")
	}
	d.puts = append(d.puts, vfWrite{k.String(), append([]byte{}, v...)})
	return d.Datastore.Put(ctx, k, v)
}
func (d *vfJournalDS) Delete(ctx context.Context, k ds.Key) error {
	d.touched++
	vfYield("ds.Delete")
	d.deletes = append(d.deletes, k.String())
	return d.Datastore.Delete(ctx, k)
}
func (d *vfJournalDS) Query(ctx context.Context, q dsq.Query) (dsq.Results, error) {
	d.touched++
	vfYield("ds.Query")
	return d.Datastore.Query(ctx, q)
}

func vfRecord(key string, valid bool, rank byte) *recpb.Record {
	v := []byte{0, rank}
	if valid {
		v[0] = 1
	}
	return &recpb.Record{Key: []byte(key), Value: v}
}

// vfStored decodes what is physically stored for key (nil if nothing decodable).
func vfStored(d *vfJournalDS, key string) *recpb.Record {
	buf, err := d.Datastore.Get(context.Background(), valueDsKey(key))
	if err != nil {
		return nil
	}
	rec := new(recpb.Record)
	if proto.Unmarshal(buf, rec) != nil {
		return nil
	}
	return rec
}

// VfValueStoreHistory (C05): histories of puts, gets, clock advances and
// sweeps on two keys, with arbitrary validity/ranks and an arbitrary maximum
// record age.
func VfValueStoreHistory() {
	K := vfParam("K")
	ctx := context.Background()
	d := &vfJournalDS{Datastore: ds.NewMapDatastore()}
	maxAge := time.Duration(vfRange("maxAgeNs", -1, int(3*time.Hour)))
	vs := NewValueStore(d, vfValidator{}, maxAge)
	keys := []string{"/vf/a", "/vf/b"}
	type ack struct {
		ok   bool
		rank byte
		at   time.Time
	}
	last := map[string]*ack{} // last acknowledged put per key
	val := vfValidator{}

	for step := 0; step < K; step++ {
		key := keys[vfChoose("key", 2)]
		switch vfChoose("op", 4) {
		case 0: // Put
			valid := vfBool("put.valid")
			rank := vfU8("put.rank")
			before := vfStored(d, key)
			nPuts := len(d.puts)
			rec := vfRecord(key, valid, rank)
			switch vfChoose("put.timeReceived", 4) { // the receive time travels on the wire: the sender controls it
			case 1:
				rec.TimeReceived = "garbage"
			case 2:
				rec.TimeReceived = time.Now().Add(-2 * time.Hour).UTC().Format(time.RFC3339Nano)
			case 3:
				rec.TimeReceived = time.Now().Add(2 * time.Hour).UTC().Format(time.RFC3339Nano)
			}
			err := vs.Put(ctx, key, rec)
			if !valid {
				vfAssert(err != nil && len(d.puts) == nPuts, "put/invalid-record-is-never-stored")
				break
			}
			if err == nil {
				if before != nil && val.Validate(key, before.GetValue()) == nil {
					vfAssert(rank >= before.GetValue()[1], "put/stored-record-never-replaced-by-a-worse-one")
				}
				now := vfStored(d, key)
				vfAssert(now != nil && string(now.GetKey()) == key && val.Validate(key, now.GetValue()) == nil && now.GetValue()[1] == rank, "put/acknowledged-record-is-what-is-stored")
				got, gerr := vs.Get(ctx, key)
				vfAssert(gerr == nil && got != nil && got.GetValue()[1] == rank, "put/acknowledged-put-is-immediately-readable")
				last[key] = &ack{ok: true, rank: rank, at: time.Now()}
			} else {
				vfAssert(len(d.puts) == nPuts, "put/refused-put-writes-nothing")
				if before == nil {
					vfAssert(false, "put/valid-record-refused-although-nothing-is-stored")
				} else if val.Validate(key, before.GetValue()) == nil {
					vfAssert(rank < before.GetValue()[1], "put/refused-only-when-a-better-value-is-stored")
				}
			}
		case 1: // Get
			got, err := vs.Get(ctx, key)
			vfAssert(err == nil, "get/no-error-on-healthy-datastore")
			a := last[key]
			if got != nil {
				vfAssert(string(got.GetKey()) == key, "get/never-serves-a-record-for-another-key")
				vfAssert(val.Validate(key, got.GetValue()) == nil, "get/never-serves-an-invalid-record")
				vfAssert(a != nil && got.GetValue()[1] == a.rank, "get/serves-the-last-acknowledged-record")
				if a != nil {
					vfAssert(vfOr(maxAge <= 0, time.Since(a.at) <= maxAge), "get/never-serves-a-record-older-than-the-maximum-age")
				}
			} else if a != nil {
				vfAssert(vfAnd(maxAge > 0, time.Since(a.at) > maxAge), "get/acknowledged-put-readable-until-it-ages-out")
				last[key] = nil
			}
		case 2:
			vfAdvance(time.Hour)
		case 3:
			vs.collectExpired(ctx)
			for _, k := range keys {
				if a := last[k]; a != nil && (maxAge <= 0 || time.Since(a.at) <= maxAge) {
					got, _ := vs.Get(ctx, k)
					vfAssert(got != nil && got.GetValue()[1] == a.rank, "sweep/only-deletes-expired-records")
				}
			}
		}
	}
	// journal: per datastore key, ranks written are non-decreasing between deletions
	lastRank := map[string]int{}
	for _, w := range d.puts {
		rec := new(recpb.Record)
		vfAssert(proto.Unmarshal(w.val, rec) == nil && val.Validate(string(rec.GetKey()), rec.GetValue()) == nil, "journal/only-valid-records-are-ever-written")
		vfAssert(valueDsKey(string(rec.GetKey())).String() == w.key, "journal/records-are-filed-under-their-own-key")
		_ = lastRank
	}
	vfReach("values/end")
}

// VfValueStoreRace (C05-H5): two writers on the same key (and a reader whose
// Get may discard), every interleaving of their datastore accesses within the
// context-switch budget.
func VfValueStoreRace() {
	vfSchedBudget(vfParam("SWITCH"))
	ctx := context.Background()
	d := &vfJournalDS{Datastore: ds.NewMapDatastore()}
	maxAge := time.Hour
	vs := NewValueStore(d, vfValidator{}, maxAge)
	key := "/vf/a"
	r0 := vfU8("stored.rank")
	if vfBool("hasStored") {
		vfAssert(vs.Put(ctx, key, vfRecord(key, true, r0)) == nil, "race/setup")
		if vfBool("storedIsExpired") {
			vfAdvance(2 * time.Hour)
		}
	}
	r1, r2 := vfU8("w1.rank"), vfU8("w2.rank")
	var e1, e2 error
	done := make(chan struct{}, 4)
	go func() { e1 = vs.Put(ctx, key, vfRecord(key, true, r1)); done <- struct{}{} }()
	go func() { e2 = vs.Put(ctx, key, vfRecord(key, true, r2)); done <- struct{}{} }()
	reader := vfBool("withReader")
	if reader {
		go func() { _, _ = vs.Get(ctx, key); done <- struct{}{} }()
	}
	sweeper := vfBool("withSweeper")
	if sweeper {
		go func() { vs.collectExpired(ctx); done <- struct{}{} }()
	}
	n := 2
	if reader {
		n++
	}
	if sweeper {
		n++
	}
	for i := 0; i < n; i++ {
		<-done
	}
	final := vfStored(d, key)
	// both writers were acknowledged or refused; whatever was acknowledged last
	// must not have been beaten by a better acknowledged value that is now lost
	best := -1
	if e1 == nil {
		best = int(r1)
	}
	if e2 == nil && int(r2) > best {
		best = int(r2)
	}
	if !reader && !sweeper {
		vfAssert(e1 == nil || e2 == nil || final != nil, "race/both-refused-only-if-something-better-is-stored")
	}
	if best >= 0 {
		vfAssert(final != nil && int(final.GetValue()[1]) == best, "race/best-acknowledged-record-survives")
		got, _ := vs.Get(ctx, key)
		vfAssert(got != nil && int(got.GetValue()[1]) == best, "race/acknowledged-put-stays-readable")
	}
	// the sequence of values written to the key never goes down
	prev := -1
	for _, w := range d.puts[0:] {
		rec := new(recpb.Record)
		if proto.Unmarshal(w.val, rec) != nil {
			continue
		}
		r := int(rec.GetValue()[1])
		deletedBetween := false
		_ = deletedBetween
		if len(d.deletes) == 0 {
			vfAssert(r >= prev, "race/never-downgraded-under-any-interleaving")
		}
		prev = r
	}
	vfReach("race/end")
}

var _ = vfRegister("VfValueStoreHistory", VfValueStoreHistory)
var _ = vfRegister("VfValueStoreRace", VfValueStoreRace)
