//go:build verif

package records

import (
	"context"
	"time"

	ds "github.com/ipfs/go-datastore"
	dsq "github.com/ipfs/go-datastore/query"
	dssync "github.com/ipfs/go-datastore/sync"
	"github.com/libp2p/go-libp2p/core/peer"
	"github.com/libp2p/go-libp2p/core/peerstore"
	ma "github.com/multiformats/go-multiaddr"
)

type vfPstore struct {
	peerstore.Peerstore
	addrs      map[peer.ID][]ma.Multiaddr
	onAddAddrs func() // something that happens while an AddProvider call is on its way
}

func (ps *vfPstore) AddAddrs(p peer.ID, a []ma.Multiaddr, _ time.Duration) {
	ps.addrs[p] = append(ps.addrs[p], a...)
	if f := ps.onAddAddrs; f != nil {
		ps.onAddAddrs = nil
		f()
	}
}
func (ps *vfPstore) PeerInfo(p peer.ID) peer.AddrInfo { return peer.AddrInfo{ID: p, Addrs: ps.addrs[p]} }

type vfCountingDS struct {
	ds.Batching
	accesses int
	onQuery  func()
	hookAfterQuery bool
}

func (d *vfCountingDS) Get(ctx context.Context, k ds.Key) ([]byte, error) {
	d.accesses++
	return d.Batching.Get(ctx, k)
}
func (d *vfCountingDS) Put(ctx context.Context, k ds.Key, v []byte) error {
	d.accesses++
	return d.Batching.Put(ctx, k, v)
}
func (d *vfCountingDS) Delete(ctx context.Context, k ds.Key) error {
	d.accesses++
	return d.Batching.Delete(ctx, k)
}

// onQuery, when set, is called once at the start of the next Query, or once
// its results have been collected (hookAfterQuery).
func (d *vfCountingDS) Query(ctx context.Context, q dsq.Query) (dsq.Results, error) {
	d.accesses++
	h := d.onQuery
	d.onQuery = nil
	if h != nil && !d.hookAfterQuery {
		h()
	}
	res, err := d.Batching.Query(ctx, q)
	if h != nil && d.hookAfterQuery {
		h() // the map datastore has taken its snapshot by now
	}
	return res, err
}

func vfProvAddr() ma.Multiaddr {
	a, err := ma.NewMultiaddrBytes([]byte{4, 20, 0, 0, 1, 6, 0x0f, 0xa1})
	if err != nil {
		panic(err)
	}
	return a
}

// VfProviderHistory (C07): histories over one key (plus a second key to evict
// the first from a one-entry cache) and two providers, from an arbitrary
// initial datastore content, with an arbitrary validity period.
func VfProviderHistory() {
	K := vfParam("K")
	ctx := context.Background()
	lruCacheSize = 1
	store := &vfCountingDS{Batching: dssync.MutexWrap(ds.NewMapDatastore())}
	ps := &vfPstore{addrs: map[peer.ID][]ma.Multiaddr{}}
	validity := time.Duration(vfRange("validityNs", 1, int(3*time.Hour)))
	mk := func() *ProviderManager {
		pm, err := NewProviderManager(peer.ID("self"), ps, store, ProvideValidity(validity), CleanupInterval(0))
		vfAssert(err == nil && pm != nil, "providers/constructor")
		pm.shuffle = func(int, func(int, int)) {}
		return pm
	}
	pm := mk()
	key := []byte("key-one")
	other := []byte("key-two")
	provs := []peer.ID{peer.ID("prov-a"), peer.ID("prov-b")}
	start := time.Now()
	// model: time of the most recent addition per provider of `key`
	addedAt := map[peer.ID]time.Time{}
	// arbitrary initial content: records written by an earlier run
	for _, p := range provs {
		switch vfChoose("initial.age", 4) {
		case 1:
			addedAt[p] = start
		case 2:
			addedAt[p] = start.Add(-time.Hour)
		case 3:
			addedAt[p] = start.Add(-2 * time.Hour)
		}
		if t, ok := addedAt[p]; ok {
			vfAssert(writeProviderEntry(ctx, store, key, p, t) == nil, "providers/setup")
		}
	}
	check := func(pm *ProviderManager, when string) {
		got, err := pm.GetProviders(ctx, key)
		vfAssert(err == nil, "get/no-error")
		seen := map[peer.ID]bool{}
		for _, ai := range got {
			vfAssert(!seen[ai.ID], "get/no-duplicates")
			seen[ai.ID] = true
			_, known := addedAt[ai.ID]
			vfAssert(known, "get/no-peer-that-was-never-added")
		}
		for _, p := range provs {
			t, known := addedAt[p]
			if !known {
				vfAssert(!seen[p], "get/no-peer-that-was-never-added")
				continue
			}
			valid := time.Since(t) <= validity
			vfAssert(seen[p] == valid, "get/provider-returned-exactly-while-its-latest-addition-is-valid")
		}
	}
	for step := 0; step < K; step++ {
		switch vfChoose("op", 7) {
		case 0, 1:
			p := provs[vfChoose("add.prov", 2)]
			err := pm.AddProvider(ctx, key, peer.AddrInfo{ID: p})
			vfAssert(err == nil, "add/no-error")
			addedAt[p] = time.Now()
		case 2:
			check(pm, "get")
		case 3:
			vfAdvance(time.Hour)
		case 4:
			pm.collectExpired(ctx)
		case 5: // restart on the same datastore
			vfAssert(pm.Close() == nil, "close/no-error")
			pm = mk()
		case 6: // evict `key` from the one-entry cache
			_ = pm.AddProvider(ctx, other, peer.AddrInfo{ID: provs[0]})
			_, _ = pm.GetProviders(ctx, other)
		}
	}
	check(pm, "final")
	// Close fence
	vfAssert(pm.Close() == nil, "close/no-error")
	n := store.accesses
	err := pm.AddProvider(ctx, key, peer.AddrInfo{ID: provs[0]})
	_, gerr := pm.GetProviders(ctx, key)
	vfAssert(err == ErrClosed && gerr == ErrClosed, "close/store-reports-closed")
	vfAssert(store.accesses == n, "close/no-datastore-access-after-close")
	vfAssert(pm.Close() == nil, "close/may-be-called-again")
	vfWaitIdle()
	vfAssert(vfLiveGoroutines() == 1, "close/no-goroutine-left")
	vfReach("providers/end")
}

// VfProviderCloseRace (C07, C14): Close completes while an AddProvider call is
// between its entry and the store: that call reports ErrClosed and does not
// touch the datastore any more.
func VfProviderCloseRace() {
	ctx := context.Background()
	store := &vfCountingDS{Batching: dssync.MutexWrap(ds.NewMapDatastore())}
	ps := &vfPstore{addrs: map[peer.ID][]ma.Multiaddr{}}
	pm, err := NewProviderManager(peer.ID("self"), ps, store, CleanupInterval(0))
	vfAssert(err == nil && pm != nil, "providers/constructor")
	key := []byte("some-key")
	provs := []peer.ID{peer.ID("prov-a"), peer.ID("prov-b")}
	if vfBool("keyAlreadyCached") {
		vfAssert(pm.AddProvider(ctx, key, peer.AddrInfo{ID: provs[1]}) == nil, "providers/add")
		_, _ = pm.GetProviders(ctx, key)
	}
	n0 := 0
	ps.onAddAddrs = func() {
		vfAssert(pm.Close() == nil, "close/no-error")
		n0 = store.accesses
	}
	aerr := pm.AddProvider(ctx, key, peer.AddrInfo{ID: provs[0], Addrs: []ma.Multiaddr{vfProvAddr()}})
	vfAssert(aerr == ErrClosed, "close/call-overtaken-by-close-reports-closed")
	vfAssert(store.accesses == n0, "close/no-datastore-access-after-close")
	vfAssert(pm.Close() == nil, "close/may-be-called-again")
	vfWaitIdle()
	vfAssert(vfLiveGoroutines() == 1, "close/no-goroutine-left")
	vfReach("providers/close-race-end")
}

// VfProviderLoadRace (C07): an AddProvider that is acknowledged while another
// caller is loading the same (uncached) key from the datastore is visible to
// every later query, like any other acknowledged addition.
func VfProviderLoadRace() {
	ctx := context.Background()
	store := &vfCountingDS{Batching: dssync.MutexWrap(ds.NewMapDatastore())}
	ps := &vfPstore{addrs: map[peer.ID][]ma.Multiaddr{}}
	key := []byte("some-key")
	provs := []peer.ID{peer.ID("prov-a"), peer.ID("prov-b")}
	mk := func() *ProviderManager {
		pm, err := NewProviderManager(peer.ID("self"), ps, store, CleanupInterval(0))
		vfAssert(err == nil && pm != nil, "providers/constructor")
		return pm
	}
	// a previous run left a provider for the key on disk: the key is cold now
	pm := mk()
	vfAssert(pm.AddProvider(ctx, key, peer.AddrInfo{ID: provs[0]}) == nil, "providers/add")
	vfAssert(pm.Close() == nil, "close/no-error")
	pm = mk()
	late := provs[1]
	if vfBool("lateAdditionRefreshesTheStoredProvider") {
		late = provs[0]
	}
	done := make(chan struct{})
	var aerr error
	store.hookAfterQuery = vfBool("additionLandsAfterTheLoadersSnapshot")
	store.onQuery = func() {
		go func() {
			aerr = pm.AddProvider(ctx, key, peer.AddrInfo{ID: late})
			close(done)
		}()
		// give the addition the chance to run to completion (it cannot while
		// the loader holds the manager's lock, which is fine too)
		select {
		case <-done:
		case <-time.After(50 * time.Millisecond):
		}
	}
	first, err := pm.GetProviders(ctx, key)
	vfAssert(err == nil, "providers/get")
	<-done
	vfAssert(aerr == nil, "providers/add")
	has := func(l []peer.AddrInfo, id peer.ID) bool {
		for _, p := range l {
			if p.ID == id {
				return true
			}
		}
		return false
	}
	vfAssert(has(first, provs[0]), "providers/stored-provider-is-returned")
	second, err := pm.GetProviders(ctx, key)
	vfAssert(err == nil, "providers/get")
	vfAssert(has(second, provs[0]) && has(second, late), "providers/acknowledged-addition-is-visible-to-later-queries")
	vfAssert(len(second) == 1+vfIte(late != provs[0], 1, 0), "providers/each-provider-once")
	vfAssert(pm.Close() == nil, "close/no-error")
	vfAssert(vfLiveGoroutines() == 1, "close/no-goroutine-left")
	vfReach("providers/load-race-end")
}

// VfProviderTimeCodec (C07-H1): the timestamp codec round-trips every int64.
func VfProviderTimeCodec() {
	ns := vfI64("nanos")
	ctx := context.Background()
	store := dssync.MutexWrap(ds.NewMapDatastore())
	vfAssert(writeProviderEntry(ctx, store, []byte("k"), peer.ID("p"), time.Unix(0, ns)) == nil, "codec/write")
	buf, err := store.Get(ctx, ds.NewKey(mkProvKeyFor([]byte("k"), peer.ID("p"))))
	vfAssert(err == nil, "codec/read")
	t, perr := readTimeValue(buf)
	vfAssert(perr == nil && t.UnixNano() == ns, "codec/timestamp-round-trips")
	_, e2 := readTimeValue(nil)
	vfAssert(e2 != nil, "codec/empty-value-is-an-error")
	vfReach("codec/end")
}

var _ = vfRegister("VfProviderHistory", VfProviderHistory)
var _ = vfRegister("VfProviderCloseRace", VfProviderCloseRace)
var _ = vfRegister("VfProviderLoadRace", VfProviderLoadRace)
var _ = vfRegister("VfProviderTimeCodec", VfProviderTimeCodec)
