//go:build verif

package dht_pb

import (
	"context"
	"errors"
	"strconv"

	recpb "github.com/libp2p/go-libp2p-record/pb"
	"github.com/libp2p/go-libp2p/core/peer"
	ma "github.com/multiformats/go-multiaddr"
	"google.golang.org/protobuf/encoding/protowire"

	"github.com/libp2p/go-libp2p-kad-dht/internal"
)

// vfVarintLen is the protobuf varint length, written independently of protowire.
func vfVarintLen(x uint64) int {
	n := 1
	for s := uint(7); s < 64; s += 7 {
		n += vfIte(x >= uint64(1)<<s, 1, 0)
	}
	return n
}

// vfPeerRecordWireSize is the proto3 wire size of a Message.Peer
// (id = 1 bytes, addrs = 2 repeated bytes, connection = 3 enum).
func vfPeerRecordWireSize(p *Message_Peer) int {
	size := 0
	idLen := len(p.Id)
	size += vfIte(idLen > 0, 1+vfVarintLen(uint64(idLen))+idLen, 0)
	for _, a := range p.Addrs {
		size += 1 + vfVarintLen(uint64(len(a))) + len(a)
	}
	size += vfIte(p.Connection != 0, 1+vfVarintLen(uint64(int64(p.Connection))), 0)
	return size
}

// VfBoundPeerRecord (C09/C10): after bounding, a peer record is at most 8 KiB
// on the wire, keeps its peer ID, and a record that fits keeps all addresses.
func VfBoundPeerRecord() {
	A := vfParam("A")
	maxLen := vfParam("MAXLEN")
	n := vfChoose("nAddrs", A+1)
	p := &Message_Peer{}
	idLen := vfRange("idLen", 0, 64)
	p.Id = vfOpaque("id", idLen)
	p.Connection = Message_ConnectionType(vfI32("conn"))
	total := 0
	for i := 0; i < n; i++ {
		l := vfRange("addrLen"+strconv.Itoa(i), 0, maxLen)
		p.Addrs = append(p.Addrs, vfOpaque("addr"+strconv.Itoa(i), l))
		total += 2 + vfVarintLen(uint64(l)) - 1 + l
	}
	before := len(p.Addrs)
	// conservative size of the untouched record (every tag counted)
	fits := 1+vfVarintLen(uint64(idLen))+idLen+1+vfVarintLen(uint64(int64(p.Connection)))+total <= MaxPeerRecordSize

	boundPeerRecordAddrs(p)

	vfAssert(vfPeerRecordWireSize(p) <= MaxPeerRecordSize, "bound/peer-record-at-most-8KiB")
	vfAssert(len(p.Id) == idLen, "bound/peer-id-kept")
	vfAssert(len(p.Addrs) <= before, "bound/never-adds-addresses")
	vfAssert(vfImplies(fits, len(p.Addrs) == before), "bound/record-that-fits-keeps-all-addresses")
	vfReach("bound/end")
}

// VfSizeVarintLemma: the summary the engine uses for protowire.SizeVarint
// equals the real function body for every 64-bit value (this harness runs with
// the summary switched off, so SizeVarint below is the library's real code).
func VfSizeVarintLemma() {
	v := vfU64("v")
	vfAssert(protowire.SizeVarint(v) == vfVarintLen(v), "lemma/sizevarint-equals-threshold-count")
	vfReach("lemma/end")
}

var _ = vfRegister("VfSizeVarintLemma", VfSizeVarintLemma)

// ---- C10: responses of arbitrary shape through every ProtocolMessenger method ----

type vfScriptedSender struct {
	key      []byte
	value    []byte
	requests []*Message
}

var vfErrRemote = errors.New("remote failure")

func vfSomeBytes(name string, same []byte) []byte {
	switch vfChoose(name, 4) {
	case 0:
		return nil
	case 1:
		return []byte{}
	case 2:
		return append([]byte{}, same...)
	}
	return []byte("other-" + name)
}

func vfValidAddrBytes(i int) []byte {
	return []byte{4, 10, 0, 0, byte(i + 1), 6, 0x0f, 0xa1} // /ip4/10.0.0.x/tcp/4001
}

func (s *vfScriptedSender) response() *Message {
	m := &Message{}
	m.Type = Message_MessageType(vfI32("resp.type"))
	m.ClusterLevelRaw = vfI32("resp.cluster")
	// the record part and the peer-list part are processed independently by
	// the client code; explore each in full while the other is fixed
	focusRecord := vfBool("focus.record")
	if !focusRecord {
		m.Key = append([]byte{}, s.key...)
		if vfBool("resp.hasMatchingRecord") {
			m.Record = &recpb.Record{Key: append([]byte{}, s.key...), Value: append([]byte{}, s.value...)}
		}
	} else {
		m.Key = vfSomeBytes("resp.key", s.key)
	}
	if focusRecord && vfBool("resp.hasRecord") {
		r := &recpb.Record{}
		r.Key = vfSomeBytes("rec.key", s.key)
		r.Value = vfSomeBytes("rec.value", s.value)
		if vfBool("rec.hasTime") {
			r.TimeReceived = "not a timestamp"
		}
		m.Record = r
	}
	P := vfParam("P")
	if focusRecord {
		P = 0
	}
	for _, list := range []*[]*Message_Peer{&m.CloserPeers, &m.ProviderPeers} {
		n := vfChoose("resp.nPeers", P+1)
		for i := 0; i < n; i++ {
			p := &Message_Peer{Connection: Message_ConnectionType(vfI32("peer.conn"))}
			switch vfChoose("peer.id", 3) {
			case 0: // empty id
			case 1:
				p.Id = []byte("peer-" + strconv.Itoa(i))
			case 2:
				p.Id = []byte{0xff, 0x00, 0x01} // not a valid multihash
			}
			na := vfChoose("peer.nAddrs", 3)
			for a := 0; a < na; a++ {
				switch vfChoose("peer.addr", 3) {
				case 0:
					p.Addrs = append(p.Addrs, vfValidAddrBytes(a))
				case 1:
					p.Addrs = append(p.Addrs, []byte{}) // empty
				case 2:
					p.Addrs = append(p.Addrs, []byte{0xff, 0xff, 0xff, 0x7f, 1}) // unknown protocol code
				}
			}
			*list = append(*list, p)
		}
	}
	return m
}

func (s *vfScriptedSender) SendRequest(ctx context.Context, p peer.ID, pmes *Message) (*Message, error) {
	s.requests = append(s.requests, pmes)
	if vfBool("send.fails") {
		return nil, vfErrRemote
	}
	return s.response(), nil
}

func (s *vfScriptedSender) SendMessage(ctx context.Context, p peer.ID, pmes *Message) error {
	s.requests = append(s.requests, pmes)
	if vfBool("send.fails") {
		return vfErrRemote
	}
	return nil
}

func vfCheckInfos(infos []*peer.AddrInfo, label string) {
	for _, ai := range infos {
		vfAssert(ai != nil, label+"/no-nil-entries")
		for _, a := range ai.Addrs {
			// every surviving address decoded, i.e. round-trips
			_, err := ma.NewMultiaddrBytes(a.Bytes())
			vfAssert(err == nil, label+"/undecodable-addresses-dropped")
		}
	}
}

// VfProtocolMessenger: whatever a remote answers, each RPC returns an error
// or a sanitised result and never panics.
func VfProtocolMessenger() {
	ctx := context.Background()
	key := []byte("the-key")
	val := []byte("the-value")
	s := &vfScriptedSender{key: key, value: val}
	pm, _ := NewProtocolMessenger(s)
	remote := peer.ID("remote")
	switch vfChoose("rpc", 6) {
	case 0:
		err := pm.PutValue(ctx, remote, &recpb.Record{Key: key, Value: val})
		_ = err
	case 1:
		rec, peers, err := pm.GetValue(ctx, remote, string(key))
		if err == nil && rec != nil {
			vfAssert(string(rec.GetKey()) == string(key), "getvalue/record-for-another-key-rejected")
		}
		if err != nil {
			vfAssert(rec == nil, "getvalue/no-record-with-error")
		}
		vfCheckInfos(peers, "getvalue")
	case 2:
		peers, err := pm.GetClosestPeers(ctx, remote, peer.ID("target"))
		_ = err
		vfCheckInfos(peers, "findnode")
	case 3:
		provs, peers, err := pm.GetProviders(ctx, remote, []byte("mh-key"))
		_ = err
		vfCheckInfos(provs, "getproviders")
		vfCheckInfos(peers, "getproviders")
	case 4:
		err := pm.Ping(ctx, remote)
		_ = err
	case 5:
		var addrs []ma.Multiaddr
		if vfBool("self.hasAddr") {
			a, _ := ma.NewMultiaddrBytes(vfValidAddrBytes(0))
			addrs = append(addrs, a)
		}
		err := pm.PutProviderAddrs(ctx, remote, []byte("mh-key"), peer.AddrInfo{ID: peer.ID("me"), Addrs: addrs})
		if len(addrs) == 0 {
			vfAssert(err != nil && len(s.requests) == 0, "addprovider/refuses-to-announce-without-addresses")
		}
	}
	vfReach("pm/end")
	_ = internal.ErrIncorrectRecord
}

var _ = vfRegister("VfBoundPeerRecord", VfBoundPeerRecord)
var _ = vfRegister("VfProtocolMessenger", VfProtocolMessenger)
