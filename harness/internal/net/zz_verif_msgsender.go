//go:build verif

package net

import (
	"context"
	"errors"
	"io"
	"strconv"
	"time"

	"github.com/libp2p/go-libp2p/core/host"
	"github.com/libp2p/go-libp2p/core/network"
	"github.com/libp2p/go-libp2p/core/peer"
	"github.com/libp2p/go-libp2p/core/peerstore"
	"github.com/libp2p/go-libp2p/core/protocol"
	"github.com/libp2p/go-msgio"
	"google.golang.org/protobuf/proto"

	pb "github.com/libp2p/go-libp2p-kad-dht/pb"
)

// ---- a scripted remote peer behind fake streams ----

type vfRemoteHost struct {
	host.Host
	ps        *vfLatencyStore
	streams   []*vfRStream
	openErr   bool
	onWrite   func() // runs when the remote has received a complete request
	slowOpens bool   // NewStream may take a second and may fail only then
	simple    bool   // remote behaviours limited to answer or simpleBad; opening and writing never fail
	simpleBad int
}

// dropConnection: the connection to the peer is gone, the network resets
// every stream on it.
func (h *vfRemoteHost) dropConnection() {
	for _, s := range h.streams {
		if !s.reset && !s.closed {
			_ = s.Reset()
		}
	}
}

func (h *vfRemoteHost) openStreams() int {
	n := 0
	for _, s := range h.streams {
		if !s.reset && !s.closed {
			n++
		}
	}
	return n
}

type vfLatencyStore struct{ peerstore.Peerstore }

func (*vfLatencyStore) RecordLatency(peer.ID, time.Duration) {}

func (h *vfRemoteHost) Peerstore() peerstore.Peerstore { return h.ps }

func (h *vfRemoteHost) NewStream(ctx context.Context, p peer.ID, _ ...protocol.ID) (network.Stream, error) {
	if err := ctx.Err(); err != nil {
		return nil, err
	}
	if !h.simple {
		for _, s := range h.streams {
			vfAssert(s.reset || s.closed, "stream/at-most-one-open-stream-per-peer")
		}
	}
	if !h.simple && vfBool("newStream.fails") {
		return nil, errors.New("cannot open stream")
	}
	if h.slowOpens {
		// opening may take a second (the peer is being dialled) and may fail only then
		switch vfChoose("newStream.timing", 3) {
		case 1:
			time.Sleep(time.Second)
		case 2:
			time.Sleep(time.Second)
			return nil, errors.New("dial failed")
		}
	}
	s := &vfRStream{h: h, id: len(h.streams), avail: make(chan struct{}, 64)}
	h.streams = append(h.streams, s)
	return s, nil
}

type vfRStream struct {
	network.Stream
	h      *vfRemoteHost
	id     int
	inbox  []byte // what the client wrote, not yet consumed as frames
	outbox []byte // what the remote sent, not yet read by the client
	avail  chan struct{}
	reset  bool
	closed bool
	served int
	sent, read     int // bytes the remote sent / the client has read
	oversizeBodyAt int // offset in the sent bytes where the body of an oversize frame starts (0 = none)
}

func (s *vfRStream) Reset() error {
	s.reset = true
	select {
	case s.avail <- struct{}{}:
	default:
	}
	return nil
}
func (s *vfRStream) Close() error {
	s.closed = true
	select {
	case s.avail <- struct{}{}:
	default:
	}
	return nil
}
func (s *vfRStream) SetDeadline(time.Time) error      { return nil }
func (s *vfRStream) SetReadDeadline(time.Time) error  { return nil }
func (s *vfRStream) SetWriteDeadline(time.Time) error { return nil }

func (s *vfRStream) deliver(b []byte) {
	s.sent += len(b)
	s.outbox = append(s.outbox, b...)
	select {
	case s.avail <- struct{}{}:
	default:
	}
}

// Write: the remote receives bytes; for every complete request frame it
// decides how to answer.
func (s *vfRStream) Write(p []byte) (int, error) {
	if s.reset || s.closed {
		return 0, errors.New("stream reset")
	}
	if !s.h.simple && vfBool("write.fails") {
		return 0, errors.New("write failed")
	}
	s.inbox = append(s.inbox, p...)
	for {
		r := msgio.NewVarintReaderSize(&vfBytesReader{b: s.inbox}, network.MessageSizeMax)
		frame, err := r.ReadMsg()
		if err != nil {
			break
		}
		var req pb.Message
		if proto.Unmarshal(frame, &req) != nil {
			break
		}
		// consume the frame
		hdr := 1
		for n := len(frame); n >= 0x80; n >>= 7 {
			hdr++
		}
		s.inbox = s.inbox[hdr+len(frame):]
		s.served++
		if req.Type == pb.Message_ADD_PROVIDER {
			continue // SendMessage: no answer expected
		}
		resp := pb.NewMessage(req.Type, req.Key, 0) // the reply echoes the request id carried in Key
		b := vfFrame(resp)
		if s.h.onWrite != nil {
			s.h.onWrite()
		}
		var beh int
		if s.h.simple {
			// answer, or (warm-up) reset / (concurrent phase) stay silent
			if vfBool("remote.misbehaves") {
				beh = s.h.simpleBad
			}
		} else {
			beh = vfChoose("remote.behaviour", 5)
		}
		switch beh {
		case 0:
			s.deliver(b)
		case 1: // late: after the client's read timeout
			time.AfterFunc(dhtReadMessageTimeout+5*time.Second, func() { s.deliver(b) })
		case 2: // silence
		case 3: // the remote resets the stream
			_ = s.Reset()
		case 4: // the remote announces a frame one byte above the transport limit and starts sending it
			var hdr []byte
			for n := uint64(network.MessageSizeMax) + 1; ; n >>= 7 {
				if n < 0x80 {
					hdr = append(hdr, byte(n))
					break
				}
				hdr = append(hdr, byte(n)|0x80)
			}
			s.oversizeBodyAt = s.sent + len(hdr)
			s.deliver(append(hdr, make([]byte, 64)...))
		}
	}
	return len(p), nil
}

func (s *vfRStream) Read(p []byte) (int, error) {
	for {
		if len(s.outbox) > 0 {
			n := copy(p, s.outbox)
			s.outbox = s.outbox[n:]
			s.read += n
			return n, nil
		}
		if s.reset {
			return 0, errors.New("stream reset")
		}
		if s.closed {
			return 0, io.EOF
		}
		<-s.avail
	}
}

type vfBytesReader struct {
	b []byte
	i int
}

func (r *vfBytesReader) Read(p []byte) (int, error) {
	if r.i >= len(r.b) {
		return 0, io.EOF
	}
	n := copy(p, r.b[r.i:])
	r.i += n
	return n, nil
}

func vfFrame(m *pb.Message) []byte {
	b, err := proto.Marshal(m)
	if err != nil {
		panic(err)
	}
	var out []byte
	n := uint64(len(b))
	for n >= 0x80 {
		out = append(out, byte(n)|0x80)
		n >>= 7
	}
	out = append(out, byte(n))
	return append(out, b...)
}

// VfRequestReplyMatching (C11): consecutive exchanges with one peer under
// every mix of write failures, late replies, silence, remote resets, stream
// open failures, context cancellation and a disconnect notification.
func VfRequestReplyMatching() {
	K := vfParam("K")
	h := &vfRemoteHost{ps: &vfLatencyStore{}}
	m := NewMessageSenderImpl(h, []protocol.ID{"/vf/kad/1.0.0"})
	p := peer.ID("remote")
	disconnectBefore := vfChoose("disconnectBeforeCall", K+1) // K = never
	for k := 0; k < K; k++ {
		if k == disconnectBefore {
			m.OnDisconnect(context.Background(), p)
			vfWaitIdle()
		}
		ctx, cancel := context.WithCancel(context.Background())
		h.onWrite = nil
		switch vfChoose("callerCancels", 3) {
		case 1:
			// the caller gives up 3 s after sending (before any timeout)
			time.AfterFunc(3*time.Second, cancel)
		case 2:
			// the caller gives up while the request is being written
			h.onWrite = cancel
		}
		id := "request-" + strconv.Itoa(k)
		nStreams := len(h.streams)
		var used *vfRStream
		if nStreams > 0 {
			used = h.streams[nStreams-1]
		}
		req := pb.NewMessage(pb.Message_FIND_NODE, []byte(id), 0)
		resp, err := m.SendRequest(ctx, p, req)
		cancel()
		for _, s := range h.streams {
			if s.oversizeBodyAt > 0 {
				vfAssert(s.read <= s.oversizeBodyAt, "reply/a-frame-announced-above-the-transport-limit-is-refused-before-its-body-is-read")
			}
		}
		if err == nil {
			vfAssert(resp != nil && string(resp.GetKey()) == id, "reply/is-the-reply-to-that-very-request")
		} else {
			vfAssert(resp == nil, "reply/no-reply-with-error")
			// after a failed exchange the stream it used is gone
			for _, s := range h.streams {
				if s.served > 0 || s == used {
					_ = s
				}
			}
			if len(h.streams) > 0 {
				last := h.streams[len(h.streams)-1]
				if last.served > 0 {
					vfAssert(last.reset || last.closed, "stream/reset-rather-than-reused-after-a-failed-exchange")
				}
			}
		}
		vfWaitIdle()
	}
	// let every late reply and timer play out; nothing may be left running
	vfAdvance(time.Minute)
	vfWaitIdle()
	for _, s := range h.streams {
		if !(s.reset || s.closed) {
			// the one live stream of the peer may stay open for reuse
			continue
		}
	}
	vfAssert(vfBlockedGoroutines() <= 1, "reply/no-reader-goroutine-left-on-a-dead-stream")
	vfReach("reply/end")
}

// VfConcurrentExchanges (C11): two concurrent callers and a disconnect
// notification racing on one peer, after an optional warm-up exchange that may
// have failed (leaving the sender with or without a stream).
func VfConcurrentExchanges() {
	vfSchedBudget(vfParam("SWITCH"))
	vfSchedLIFO(vfBool("scheduleMostRecentlyWokenFirst"))
	h := &vfRemoteHost{ps: &vfLatencyStore{}, simple: true}
	m := NewMessageSenderImpl(h, []protocol.ID{"/vf/kad/1.0.0"})
	p := peer.ID("remote")
	h.simpleBad = 3
	if vfBool("warmup") {
		ctx, cancel := context.WithCancel(context.Background())
		resp, err := m.SendRequest(ctx, p, pb.NewMessage(pb.Message_FIND_NODE, []byte("warmup"), 0))
		cancel()
		if err == nil {
			vfAssert(resp != nil && string(resp.GetKey()) == "warmup", "reply/is-the-reply-to-that-very-request")
		}
		vfWaitIdle()
	}
	h.simpleBad = 2
	C := vfParam("C")
	done := 0
	for c := 0; c < C; c++ {
		id := "request-" + strconv.Itoa(c)
		go func() {
			ctx, cancel := context.WithCancel(context.Background())
			resp, err := m.SendRequest(ctx, p, pb.NewMessage(pb.Message_FIND_NODE, []byte(id), 0))
			cancel()
			if err == nil {
				vfAssert(resp != nil && string(resp.GetKey()) == id, "reply/is-the-reply-to-that-very-request")
			} else {
				vfAssert(resp == nil, "reply/no-reply-with-error")
			}
			done++
		}()
	}
	if vfBool("disconnect") {
		go func() {
			h.dropConnection()
			m.OnDisconnect(context.Background(), p)
		}()
	}
	vfAdvance(time.Minute)
	vfWaitIdle()
	vfAssert(done == C, "reply/every-concurrent-call-returns")
	{
		// a later request, after everything has settled
		h.simpleBad = 0
		ctx, cancel := context.WithCancel(context.Background())
		resp, err := m.SendRequest(ctx, p, pb.NewMessage(pb.Message_FIND_NODE, []byte("later"), 0))
		cancel()
		vfAssert(err == nil && resp != nil && string(resp.GetKey()) == "later", "reply/later-request-on-a-healthy-peer-succeeds")
		vfAdvance(time.Minute)
		vfWaitIdle()
	}
	vfAssert(h.openStreams() <= 1, "stream/at-most-one-open-stream-per-peer-at-rest")
	vfAssert(vfBlockedGoroutines() <= 1, "reply/no-reader-goroutine-left-on-a-dead-stream")
	vfReach("reply/concurrent-end")
}

// VfStaggeredExchanges (C11): two callers 500 ms apart and an optional
// disconnect in between, with stream opens that may take a second and fail only
// then; followed by a later request. Replies match their requests, nothing
// panics, and at rest the peer has at most one open stream.
func VfStaggeredExchanges() {
	h := &vfRemoteHost{ps: &vfLatencyStore{}, simple: true, slowOpens: true}
	m := NewMessageSenderImpl(h, []protocol.ID{"/vf/kad/1.0.0"})
	p := peer.ID("remote")
	h.simpleBad = 0 // the remote answers every request it receives
	done := 0
	call := func(id string) {
		ctx, cancel := context.WithCancel(context.Background())
		resp, err := m.SendRequest(ctx, p, pb.NewMessage(pb.Message_FIND_NODE, []byte(id), 0))
		cancel()
		if err == nil {
			vfAssert(resp != nil && string(resp.GetKey()) == id, "reply/is-the-reply-to-that-very-request")
		} else {
			vfAssert(resp == nil, "reply/no-reply-with-error")
		}
		done++
	}
	go call("request-a")
	vfAdvance(300 * time.Millisecond)
	if vfBool("disconnect") {
		h.dropConnection()
		m.OnDisconnect(context.Background(), p)
	}
	vfAdvance(200 * time.Millisecond)
	go call("request-b")
	vfAdvance(time.Minute)
	vfWaitIdle()
	vfAssert(done == 2, "reply/every-concurrent-call-returns")
	h.slowOpens = false
	call("later")
	vfAdvance(time.Minute)
	vfWaitIdle()
	vfAssert(h.openStreams() <= 1, "stream/at-most-one-open-stream-per-peer-at-rest")
	vfAssert(vfBlockedGoroutines() <= 1, "reply/no-reader-goroutine-left-on-a-dead-stream")
	vfReach("reply/staggered-end")
}

var _ = vfRegister("VfRequestReplyMatching", VfRequestReplyMatching)
var _ = vfRegister("VfStaggeredExchanges", VfStaggeredExchanges)
var _ = vfRegister("VfConcurrentExchanges", VfConcurrentExchanges)
