//go:build verif

package dual

import (
	"context"
	"errors"
	"time"

	"github.com/ipfs/go-cid"
	dht "github.com/libp2p/go-libp2p-kad-dht"
	dhtcfg "github.com/libp2p/go-libp2p-kad-dht/internal/config"
	"github.com/libp2p/go-libp2p/core/host"
	kb "github.com/libp2p/go-libp2p-kbucket"
	"github.com/libp2p/go-libp2p/core/peer"
	"github.com/libp2p/go-libp2p/core/peerstore"
	"github.com/libp2p/go-libp2p/core/routing"
	ma "github.com/multiformats/go-multiaddr"
)

// The two inner DHTs are opaque objects; their methods are intercepted by the
// models below, which record the call and return scripted results.

type vfInner struct {
	tableSize int
	provided  []cid.Cid
	puts      []string
	getVal    []byte
	getErr    error
	findInfo  peer.AddrInfo
	findErr   error
	provs     []peer.AddrInfo
	search    [][]byte // values the inner SearchValue streams, in order
	searchErr error
}

var vfInners = map[*dht.IpfsDHT]*vfInner{}

type vfLat struct{ peerstore.Metrics }

func (vfLat) LatencyEWMA(peer.ID) time.Duration { return 0 }

func vfModelRoutingTable(d *dht.IpfsDHT) *kb.RoutingTable {
	rt, _ := kb.NewRoutingTable(2, kb.ConvertPeerID(peer.ID("self")), time.Minute, vfLat{}, time.Hour, nil)
	for i := 0; i < vfInners[d].tableSize; i++ {
		rt.TryAddPeer(peer.ID("member-"+string(rune('a'+i))), true, false)
	}
	return rt
}
func vfModelProvide(d *dht.IpfsDHT, ctx context.Context, c cid.Cid, announce bool) error {
	vfInners[d].provided = append(vfInners[d].provided, c)
	return nil
}
func vfModelPutValue(d *dht.IpfsDHT, ctx context.Context, key string, val []byte, opts ...routing.Option) error {
	vfInners[d].puts = append(vfInners[d].puts, key)
	return nil
}
func vfModelGetValue(d *dht.IpfsDHT, ctx context.Context, key string, opts ...routing.Option) ([]byte, error) {
	return vfInners[d].getVal, vfInners[d].getErr
}
func vfModelFindPeer(d *dht.IpfsDHT, ctx context.Context, id peer.ID) (peer.AddrInfo, error) {
	return vfInners[d].findInfo, vfInners[d].findErr
}
func vfModelFindProvidersAsync(d *dht.IpfsDHT, ctx context.Context, c cid.Cid, count int) <-chan peer.AddrInfo {
	ch := make(chan peer.AddrInfo)
	list := vfInners[d].provs
	go func() {
		defer close(ch)
		for _, p := range list {
			select {
			case ch <- p:
			case <-ctx.Done():
				return
			}
		}
	}()
	return ch
}

func vfModelSearchValue(d *dht.IpfsDHT, ctx context.Context, key string, opts ...routing.Option) (<-chan []byte, error) {
	in := vfInners[d]
	if in.searchErr != nil {
		return nil, in.searchErr
	}
	ch := make(chan []byte)
	go func() {
		defer close(ch)
		for _, v := range in.search {
			select {
			case ch <- v:
			case <-ctx.Done():
				return
			}
		}
	}()
	return ch, nil
}

//verif:intercept * (*github.com/libp2p/go-libp2p-kad-dht.IpfsDHT).SearchValue = vfModelSearchValue
//verif:intercept * (*github.com/libp2p/go-libp2p-kad-dht.IpfsDHT).RoutingTable = vfModelRoutingTable
//verif:intercept * (*github.com/libp2p/go-libp2p-kad-dht.IpfsDHT).Provide = vfModelProvide
//verif:intercept * (*github.com/libp2p/go-libp2p-kad-dht.IpfsDHT).PutValue = vfModelPutValue
//verif:intercept * (*github.com/libp2p/go-libp2p-kad-dht.IpfsDHT).GetValue = vfModelGetValue
//verif:intercept * (*github.com/libp2p/go-libp2p-kad-dht.IpfsDHT).FindPeer = vfModelFindPeer
//verif:intercept * (*github.com/libp2p/go-libp2p-kad-dht.IpfsDHT).FindProvidersAsync = vfModelFindProvidersAsync

func vfAddr(i int) ma.Multiaddr {
	a, err := ma.NewMultiaddrBytes([]byte{4, 10, 0, 0, byte(i), 6, 0x0f, 0xa1})
	if err != nil {
		panic(err)
	}
	return a
}

func vfSomeErr(name string) error {
	switch vfChoose(name, 3) {
	case 1:
		return kb.ErrLookupFailure
	case 2:
		return errors.New("failed: " + name)
	}
	return nil
}

// VfDualRouting (C15-H1): write routing by WAN liveness and read merging.
func VfDualRouting() {
	wan, lan := &dht.IpfsDHT{}, &dht.IpfsDHT{}
	w, l := &vfInner{}, &vfInner{}
	vfInners[wan], vfInners[lan] = w, l
	d := &DHT{WAN: wan, LAN: lan}
	ctx := context.Background()
	w.tableSize = vfChoose("wanTableSize", 2)
	c := cid.NewCidV1(cid.Raw, append([]byte{0x12, 0x20}, make([]byte, 32)...))
	switch vfChoose("operation", 5) {
	case 0:
		vfAssert(d.Provide(ctx, c, true) == nil, "dual/provide")
		vfAssert(len(w.provided)+len(l.provided) == 1, "dual/provide-goes-to-exactly-one-dht")
		vfAssert((len(w.provided) == 1) == (w.tableSize > 0), "dual/provide-to-wan-exactly-when-its-routing-table-is-non-empty")
	case 1:
		vfAssert(d.PutValue(ctx, "/vf/k", []byte("v")) == nil, "dual/putvalue")
		vfAssert(len(w.puts)+len(l.puts) == 1, "dual/putvalue-goes-to-exactly-one-dht")
		vfAssert((len(w.puts) == 1) == (w.tableSize > 0), "dual/putvalue-to-wan-exactly-when-its-routing-table-is-non-empty")
	case 2:
		w.getErr, l.getErr = vfSomeErr("wan.err"), vfSomeErr("lan.err")
		if w.getErr == nil {
			w.getVal = []byte("wan-value")
		}
		if l.getErr == nil {
			l.getVal = []byte("lan-value")
		}
		v, err := d.GetValue(ctx, "/vf/k")
		switch {
		case w.getErr == nil:
			vfAssert(err == nil && string(v) == "wan-value", "dual/getvalue-returns-the-wan-result-when-the-wan-lookup-succeeds")
		case l.getErr == nil:
			vfAssert(err == nil && string(v) == "lan-value", "dual/getvalue-otherwise-the-lan-result")
		default:
			vfAssert(err != nil && v == nil, "dual/getvalue-error-when-both-fail")
		}
	case 3:
		pid := peer.ID("wanted")
		w.findErr, l.findErr = vfSomeErr("wan.err"), vfSomeErr("lan.err")
		nw, nl := vfChoose("wan.nAddrs", 3), vfChoose("lan.nAddrs", 3)
		shared := vfBool("shareAnAddress")
		for i := 0; i < nw; i++ {
			w.findInfo.Addrs = append(w.findInfo.Addrs, vfAddr(1+i))
		}
		for i := 0; i < nl; i++ {
			k := 10 + i
			if shared && i == 0 {
				k = 1
			}
			l.findInfo.Addrs = append(l.findInfo.Addrs, vfAddr(k))
		}
		pi, err := d.FindPeer(ctx, pid)
		vfAssert((err != nil) == (w.findErr != nil && l.findErr != nil), "dual/findpeer-fails-only-if-both-fail")
		vfAssert(pi.ID == pid, "dual/findpeer-names-the-requested-peer")
		// union of both address sets, no duplicates
		want := map[string]bool{}
		for _, a := range w.findInfo.Addrs {
			want[string(a.Bytes())] = true
		}
		for _, a := range l.findInfo.Addrs {
			want[string(a.Bytes())] = true
		}
		got := map[string]bool{}
		for _, a := range pi.Addrs {
			vfAssert(!got[string(a.Bytes())] || nw == 0 || nl == 0, "dual/findpeer-no-duplicate-addresses")
			got[string(a.Bytes())] = true
			vfAssert(want[string(a.Bytes())], "dual/findpeer-only-found-addresses")
		}
		vfAssert(len(got) == len(want), "dual/findpeer-returns-the-union-of-both-address-sets")
	case 4:
		ids := []peer.ID{"prov-a", "prov-b", "prov-c"}
		for _, in := range []*vfInner{w, l} {
			n := vfChoose("nProviders", 3)
			for i := 0; i < n; i++ {
				in.provs = append(in.provs, peer.AddrInfo{ID: ids[vfChoose("provider", 3)]})
			}
		}
		count := vfChoose("count", 3)
		var yielded []peer.ID
		for pi := range d.FindProvidersAsync(ctx, c, count) {
			yielded = append(yielded, pi.ID)
		}
		seen := map[peer.ID]bool{}
		for _, id := range yielded {
			vfAssert(!seen[id], "dual/findproviders-yields-each-provider-at-most-once")
			seen[id] = true
			named := false
			for _, in := range []*vfInner{w, l} {
				for _, p := range in.provs {
					if p.ID == id {
						named = true
					}
				}
			}
			vfAssert(named, "dual/findproviders-only-providers-found-by-an-inner-dht")
		}
		if count > 0 {
			vfAssert(len(yielded) <= count, "dual/findproviders-at-most-count-in-total")
		} else {
			for _, in := range []*vfInner{w, l} {
				for _, p := range in.provs {
					vfAssert(seen[p.ID], "dual/findproviders-count-0-yields-everything")
				}
			}
		}
		vfWaitIdle()
		vfAssert(vfLiveGoroutines() == 1, "dual/findproviders-no-goroutine-left")
	}
	vfReach("dual/end")
}

// vfRankVal: value = one rank byte; higher is better; 0xff is invalid.
type vfRankVal struct{}

func (vfRankVal) Validate(key string, v []byte) error {
	if len(v) != 1 || v[0] == 0xff {
		return errors.New("invalid")
	}
	return nil
}
func (vfRankVal) Select(key string, vals [][]byte) (int, error) {
	if len(vals) == 0 {
		return 0, errors.New("no values")
	}
	best := 0
	for i, v := range vals {
		if len(v) == 1 && len(vals[best]) == 1 && v[0] > vals[best][0] {
			best = i
		}
	}
	return best, nil
}

// VfDualSearchValue (C04, C15): the dual client's SearchValue merges the two
// inner streams under the WAN validator: strictly improving, only values an
// inner DHT yielded, final value = the best of everything either yielded.
func VfDualSearchValue() {
	wan, lan := &dht.IpfsDHT{Validator: vfRankVal{}}, &dht.IpfsDHT{Validator: vfRankVal{}}
	w, l := &vfInner{}, &vfInner{}
	vfInners[wan], vfInners[lan] = w, l
	d := &DHT{WAN: wan, LAN: lan}
	ctx := context.Background()
	L := vfParam("L")
	best := -1
	all := map[byte]bool{}
	for _, in := range []*vfInner{w, l} {
		if vfBool("inner.searchFails") {
			in.searchErr = errors.New("search failed")
			continue
		}
		n := vfChoose("inner.values", L+1)
		prev := -1
		for i := 0; i < n; i++ {
			// an inner DHT streams strictly improving valid values (C04 on the inner client)
			r := vfChoose("inner.rank", 4)
			if r <= prev {
				continue
			}
			prev = r
			in.search = append(in.search, []byte{byte(r)})
			all[byte(r)] = true
			if r > best {
				best = r
			}
		}
	}
	ch, err := d.SearchValue(ctx, "/vf/key")
	var got [][]byte
	if err == nil {
		for v := range ch {
			got = append(got, v)
		}
	}
	if w.searchErr != nil && l.searchErr != nil {
		vfAssert(err != nil || len(got) == 0, "dual/search-fails-or-is-empty-when-both-inner-searches-fail")
	} else {
		vfAssert(err == nil, "dual/search-succeeds-when-one-inner-search-does")
	}
	for i, v := range got {
		vfAssert(len(v) == 1 && all[v[0]], "dual/search-yields-only-values-an-inner-dht-yielded")
		if i > 0 {
			vfAssert(v[0] > got[i-1][0], "dual/search-values-strictly-improve")
		}
	}
	if best >= 0 {
		// the merged search ends when one inner search that yielded something ends
		// (routing-helpers' Parallel router): the final value is at least the best
		// of one inner DHT that yielded anything
		floor := -1
		for _, in := range []*vfInner{w, l} {
			if n := len(in.search); n > 0 {
				b := int(in.search[n-1][0])
				if floor < 0 || b < floor {
					floor = b
				}
			}
		}
		vfAssert(len(got) > 0 && int(got[len(got)-1][0]) >= floor, "dual/search-final-value-is-at-least-the-best-of-one-inner-dht")
	} else {
		vfAssert(len(got) == 0, "dual/search-nothing-when-nothing-was-found")
	}
	vfWaitIdle()
	vfAssert(vfLiveGoroutines() == 1, "dual/search-no-goroutine-left")
	vfReach("dual/search-end")
}

var _ = vfRegister("VfDualRouting", VfDualRouting)
var _ = vfRegister("VfDualSearchValue", VfDualSearchValue)

// ---- option layering of dual.New (C15-H2/H3) ----

var vfCaptured []*dhtcfg.Config

func vfModelNew(h host.Host, opts ...dht.Option) (*dht.IpfsDHT, error) {
	cfg := &dhtcfg.Config{}
	if err := cfg.Apply(opts...); err != nil {
		return nil, err
	}
	vfCaptured = append(vfCaptured, cfg)
	return &dht.IpfsDHT{}, nil
}

func vfModelMode(d *dht.IpfsDHT) dht.ModeOpt { return dht.ModeServer }

//verif:intercept VfDualOptions github.com/libp2p/go-libp2p-kad-dht.New = vfModelNew
//verif:intercept VfDualOptions (*github.com/libp2p/go-libp2p-kad-dht.IpfsDHT).Mode = vfModelMode

// VfDualOptions: the filters that the real dual.New installs on the WAN and
// LAN DHTs, applied to every IPv4/IPv6 address.
func VfDualOptions() {
	vfCaptured = nil
	d, err := New(nil)
	vfAssert(err == nil && d != nil && len(vfCaptured) == 2, "dualnew/constructs-wan-then-lan")
	if len(vfCaptured) != 2 {
		return
	}
	wan, lan := vfCaptured[0], vfCaptured[1]
	vfAssert(wan.AddressFilter != nil && lan.AddressFilter != nil && wan.QueryPeerFilter != nil && lan.QueryPeerFilter != nil, "dualnew/installs-address-and-query-filters")
	relay := vfBool("viaRelay")
	v6 := vfBool("ipv6")
	var ip, raw []byte
	if v6 {
		ip = vfBytes("ip6", 16)
		raw = append([]byte{41}, ip...)
	} else {
		ip = vfBytes("ip4", 4)
		raw = append([]byte{4}, ip...)
	}
	raw = append(raw, 6, 0x0f, 0xa1)
	if relay {
		raw = append(raw, 0xa2, 0x02)
	}
	a, aerr := ma.NewMultiaddrBytes(raw)
	vfAssert(aerr == nil, "dualnew/setup")
	wanKeeps := len(wan.AddressFilter([]ma.Multiaddr{a})) == 1
	lanKeeps := len(lan.AddressFilter([]ma.Multiaddr{a})) == 1
	wanFollows := wan.QueryPeerFilter(nil, peer.AddrInfo{ID: "x", Addrs: []ma.Multiaddr{a}})
	lanFollows := lan.QueryPeerFilter(nil, peer.AddrInfo{ID: "x", Addrs: []ma.Multiaddr{a}})
	var local, loopback bool
	if v6 {
		isLoop := true
		for i := 0; i < 15; i++ {
			isLoop = vfAnd(isLoop, ip[i] == 0)
		}
		isLoop = vfAnd(isLoop, ip[15] == 1)
		local = vfOr(vfOr(isLoop, vfAnd(ip[0] == 0xfe, ip[1]&0xc0 == 0x80)), ip[0]&0xfe == 0xfc)
		loopback = isLoop
	} else {
		p10 := ip[0] == 10
		p172 := vfAnd(ip[0] == 172, ip[1]&0xf0 == 16)
		p192 := vfAnd(ip[0] == 192, ip[1] == 168)
		cgnat := vfAnd(ip[0] == 100, ip[1]&0xc0 == 64)
		lp := ip[0] == 127
		link := vfAnd(ip[0] == 169, ip[1] == 254)
		local = vfOr(vfOr(vfOr(p10, p172), vfOr(p192, cgnat)), vfOr(lp, link))
		loopback = lp
	}
	vfAssert(vfImplies(local, !wanKeeps), "dualnew/wan-never-stores-or-advertises-a-non-public-address")
	vfAssert(vfImplies(vfOr(local, relay), !wanFollows), "dualnew/wan-only-follows-referrals-with-a-public-non-relay-address")
	vfAssert(vfImplies(loopback, !lanKeeps), "dualnew/lan-never-advertises-a-loopback-address")
	vfAssert(lanFollows, "dualnew/lan-follows-any-referral-with-addresses")
	if !v6 && !relay {
		vfAssert(vfImplies(vfAnd(ip[0] == 8, ip[1] == 8), vfAnd(wanKeeps, wanFollows)), "dualnew/ordinary-public-address-is-kept")
		vfAssert(vfImplies(ip[0] == 10, lanKeeps), "dualnew/lan-keeps-private-non-loopback-addresses")
	}
	vfReach("dualnew/end")
}

var _ = vfRegister("VfDualOptions", VfDualOptions)
