//go:build verif

package dht

import (
	"context"
	"errors"
	"time"

	"github.com/ipfs/go-cid"
	ci "github.com/libp2p/go-libp2p/core/crypto"
	ds "github.com/ipfs/go-datastore"
	dssync "github.com/ipfs/go-datastore/sync"
	"github.com/libp2p/go-libp2p/core/network"
	"github.com/libp2p/go-libp2p/core/peer"
	"github.com/libp2p/go-libp2p/core/routing"
	recpb "github.com/libp2p/go-libp2p-record/pb"
	ma "github.com/multiformats/go-multiaddr"

	"github.com/libp2p/go-libp2p-kad-dht/netsize"
	pb "github.com/libp2p/go-libp2p-kad-dht/pb"
	"github.com/libp2p/go-libp2p-kad-dht/records"
)

// vfRankValidator: value = (flag, rank). flag 1 valid, 0 invalid, 2 valid only
// while *accepting2 (a validator may stop accepting a record it once accepted).
type vfRankValidator struct{ accepting2 *bool }

func (v vfRankValidator) Validate(key string, value []byte) error {
	if len(value) != 2 {
		return errors.New("invalid record")
	}
	if value[0] == 1 || (value[0] == 2 && *v.accepting2) {
		return nil
	}
	return errors.New("invalid record")
}

func (v vfRankValidator) Select(key string, vals [][]byte) (int, error) {
	if len(vals) == 0 {
		return 0, errors.New("no values")
	}
	best := 0
	for i, x := range vals {
		if len(x) == 2 && len(vals[best]) == 2 && x[1] > vals[best][1] {
			best = i
		}
	}
	return best, nil
}

// vfClientEnv: the env plus value/provider subsystems and P connected seed peers.
func vfClientEnv(K, P int) (*vfEnv, []peer.ID, *bool) {
	e := vfNewEnv(K, 2, P) // beta = P: the search phase itself asks every seed
	d := e.dht
	acc := true
	d.Validator = vfRankValidator{&acc}
	d.valueStore = records.NewValueStore(dssync.MutexWrap(ds.NewMapDatastore()), d.Validator, 0)
	d.nsEstimator = netsize.NewEstimator(d.self, d.routingTable, K)
	d.shuffle = func(int, func(int, int)) {}
	ids := make([]peer.ID, P)
	for i := range ids {
		ids[i] = vfPeer(i)
		e.host.nw.connected[ids[i]] = network.Connected
		d.routingTable.TryAddPeer(ids[i], true, false)
	}
	return e, ids, &acc
}

func vfValidFlag(flag byte, accepting2 bool) bool {
	return flag == 1 || (flag == 2 && accepting2)
}

// VfSearchValue (C04, C06 corrective puts): GetValue/SearchValue end to end.
func VfSearchValue() {
	P := vfParam("P")
	vfHashBits(vfParam("W"))
	e, ids, accepting2 := vfClientEnv(P+1, P)
	d := e.dht
	key := string(vfHashInput("key", []byte("/vf/"), 4))
	ctx := context.Background()
	val := d.Validator

	// local record: none, valid, or valid-when-stored but no longer accepted
	localRank := vfU8("local.rank")
	localKind := vfChoose("local.kind", 3)
	switch localKind {
	case 1:
		vfAssert(d.valueStore.Put(ctx, key, &recpb.Record{Key: []byte(key), Value: []byte{1, localRank}}) == nil, "search/setup")
	case 2:
		vfAssert(d.valueStore.Put(ctx, key, &recpb.Record{Key: []byte(key), Value: []byte{2, localRank}}) == nil, "search/setup")
		*accepting2 = false
	}
	type answer struct {
		fails, hasRec, keyOK bool
		flag, rank           byte
		decided              bool
	}
	ans := map[peer.ID]*answer{}
	var puts []vfSent
	e.sender.reply = func(_ context.Context, p peer.ID, req *pb.Message) (*pb.Message, error) {
		switch req.Type {
		case pb.Message_GET_VALUE:
			a := ans[p]
			if a == nil {
				a = &answer{}
				ans[p] = a
			}
			if !a.decided {
				a.decided = true
				a.fails = vfBool("peer.fails")
				if !a.fails {
					a.hasRec = vfBool("peer.hasRecord")
					if a.hasRec {
						a.keyOK = vfBool("peer.recordKeyMatches")
						// invalid (0), valid (1), or the other byte encoding (2): valid too - so that
						// two byte-different records can rank equally - unless the validator has
						// stopped accepting it, in which case it is what a stale local copy looks like
						a.flag = byte(vfChoose("peer.recordFlag", 3))
						a.rank = vfU8("peer.rank")
					}
				}
			}
			if a.fails {
				return nil, errors.New("rpc failed")
			}
			resp := pb.NewMessage(pb.Message_GET_VALUE, req.Key, 0)
			if a.hasRec {
				k := []byte(key)
				if !a.keyOK {
					k = []byte("/vf/other")
				}
				resp.Record = &recpb.Record{Key: k, Value: []byte{a.flag, a.rank}}
			}
			return resp, nil
		case pb.Message_PUT_VALUE:
			puts = append(puts, vfSent{p, req})
			return req, nil
		}
		return nil, errors.New("unexpected request")
	}
	var opts []routing.Option
	quorumAll := true
	if vfBool("quorumOne") {
		opts = append(opts, Quorum(1))
		quorumAll = false
	} else {
		opts = append(opts, Quorum(0))
	}
	ch, err := d.SearchValue(ctx, key, opts...)
	vfAssert(err == nil && ch != nil, "search/starts")
	var streamed [][]byte
	for v := range ch {
		streamed = append(streamed, v)
	}
	vfWaitIdle()
	// every streamed value is accepted by the validator for the requested key
	for i, v := range streamed {
		vfAssert(val.Validate(key, v) == nil, "search/only-validator-approved-values-are-yielded")
		if i > 0 {
			vfAssert(v[1] > streamed[i-1][1], "search/streamed-values-strictly-improve")
		}
	}
	// best valid value supplied by local storage or a processed answer
	bestRank := -1
	if localKind == 1 {
		bestRank = int(localRank)
	}
	for _, p := range ids {
		a := ans[p]
		if a != nil && a.decided && !a.fails && a.hasRec && a.keyOK && vfValidFlag(a.flag, *accepting2) && int(a.rank) > bestRank {
			bestRank = int(a.rank)
		}
	}
	if quorumAll {
		if bestRank < 0 {
			vfAssert(len(streamed) == 0, "search/not-found-when-no-valid-value-was-supplied")
		} else {
			vfAssert(len(streamed) > 0 && int(streamed[len(streamed)-1][1]) == bestRank, "search/final-value-is-the-best-valid-value-supplied")
		}
		// corrective puts: exactly the closest peers that did not return the best value
		if bestRank >= 0 {
			for _, p := range ids {
				a := ans[p]
				if a == nil || a.fails || (a.hasRec && !a.keyOK) {
					continue // failed peers (a mis-keyed record is a failed request) are not among the lookup's closest peers
				}
				// "returned the best value" = returned the very bytes the search ended with
				last := streamed[len(streamed)-1]
				returnedBest := a.hasRec && a.keyOK && vfValidFlag(a.flag, *accepting2) && a.rank == last[1] && a.flag == last[0]
				n := 0
				for _, s := range puts {
					if s.to == p {
						n++
						vfAssert(int(s.msg.GetRecord().GetValue()[1]) == bestRank && string(s.msg.GetRecord().GetKey()) == key, "search/corrective-put-carries-the-best-value")
					}
				}
				if returnedBest {
					vfAssert(n == 0, "search/peers-that-returned-the-best-value-are-not-corrected")
				} else {
					vfAssert(n == 1, "search/closest-peers-lacking-the-best-value-are-sent-it")
				}
			}
		}
	}
	vfAssert(vfLiveGoroutines() == 1, "search/no-goroutine-left-behind")
	vfReach("search/end")
}

// VfPutValue (C06, C05 local rule): local store first, one PUT_VALUE per
// closest peer with the same record, failures of some do not stop the others.
func VfPutValue() {
	P := vfParam("P")
	vfHashBits(vfParam("W"))
	e, ids, _ := vfClientEnv(P+1, P)
	d := e.dht
	key := string(vfHashInput("key", []byte("/vf/"), 4))
	ctx := context.Background()
	storedRank := vfU8("stored.rank")
	hasStored := vfBool("hasStored")
	if hasStored {
		vfAssert(d.valueStore.Put(ctx, key, &recpb.Record{Key: []byte(key), Value: []byte{1, storedRank}}) == nil, "put/setup")
	}
	valid := vfBool("new.valid")
	rank := vfU8("new.rank")
	value := []byte{vfIte(valid, byte(1), byte(0)), rank}
	findFails := map[peer.ID]bool{}
	putFails := map[peer.ID]bool{}
	var puts []vfSent
	localBeforeRPC := true
	e.sender.reply = func(_ context.Context, p peer.ID, req *pb.Message) (*pb.Message, error) {
		switch req.Type {
		case pb.Message_FIND_NODE:
			f, ok := findFails[p]
			if !ok {
				f = vfBool("findnode.fails")
				findFails[p] = f
			}
			if f {
				return nil, errors.New("rpc failed")
			}
			return pb.NewMessage(pb.Message_FIND_NODE, nil, 0), nil
		case pb.Message_PUT_VALUE:
			puts = append(puts, vfSent{p, req})
			if rec, _ := d.valueStore.Get(ctx, key); rec == nil || rec.GetValue()[1] != rank {
				localBeforeRPC = false
			}
			f := vfBool("putvalue.fails")
			putFails[p] = f
			if f {
				return nil, errors.New("rpc failed")
			}
			return req, nil
		}
		return nil, errors.New("unexpected request")
	}

	err := d.PutValue(ctx, key, value)

	vfWaitIdle()
	switch {
	case !valid:
		vfAssert(err != nil && len(puts) == 0, "putvalue/invalid-value-is-refused")
	case hasStored && rank < storedRank:
		vfAssert(err != nil && len(puts) == 0, "putvalue/refused-when-a-better-value-is-stored-locally")
	default:
		vfAssert(err == nil, "putvalue/succeeds-when-the-lookup-succeeds")
		vfAssert(localBeforeRPC, "putvalue/stored-locally-before-any-rpc")
		for _, p := range ids {
			n := 0
			for _, s := range puts {
				if s.to == p {
					n++
					vfAssert(string(s.msg.GetKey()) == key && s.msg.GetRecord().GetValue()[1] == rank && s.msg.GetRecord().GetValue()[0] == 1, "putvalue/same-record-to-every-recipient")
				}
			}
			if findFails[p] {
				vfAssert(n == 0, "putvalue/only-peers-returned-by-the-lookup")
			} else {
				vfAssert(n == 1, "putvalue/one-put-per-closest-peer-whatever-fails-elsewhere")
			}
		}
	}
	vfAssert(vfLiveGoroutines() == 1, "putvalue/no-goroutine-left-behind")
	vfReach("putvalue/end")
}

func vfCid(name string) cid.Cid {
	mhb := vfHashInput(name, []byte{0x12, 0x20}, 32)
	return cid.NewCidV1(cid.Raw, mhb)
}

// VfProvide (C06): classic Provide.
func VfProvide() {
	P := vfParam("P")
	vfHashBits(vfParam("W"))
	e, ids, _ := vfClientEnv(P+1, P)
	d := e.dht
	ctx := context.Background()
	c := vfCid("content")
	// advertised addresses and the address filter
	nAddr := vfChoose("nHostAddrs", 3)
	e.host.addrs = nil
	for i := 0; i < nAddr; i++ {
		e.host.addrs = append(e.host.addrs, vfAddr(50+i))
	}
	keep := map[string]bool{}
	emptyNonNil := vfBool("filter.returnsEmptyNonNilSliceWhenNothingPasses") // as ma.FilterAddrs does
	d.addrFilter = func(in []ma.Multiaddr) []ma.Multiaddr {
		var out []ma.Multiaddr
		if emptyNonNil {
			out = make([]ma.Multiaddr, 0, len(in))
		}
		for _, a := range in {
			k, ok := keep[string(a.Bytes())]
			if !ok {
				k = vfBool("filter.keep")
				keep[string(a.Bytes())] = k
			}
			if k {
				out = append(out, a)
			}
		}
		return out
	}
	findFails := map[peer.ID]bool{}
	var adds []vfSent
	localFirst := true
	e.sender.reply = func(_ context.Context, p peer.ID, req *pb.Message) (*pb.Message, error) {
		switch req.Type {
		case pb.Message_FIND_NODE:
			f, ok := findFails[p]
			if !ok {
				f = vfBool("findnode.fails")
				findFails[p] = f
			}
			if f {
				return nil, errors.New("rpc failed")
			}
			return pb.NewMessage(pb.Message_FIND_NODE, nil, 0), nil
		case pb.Message_ADD_PROVIDER:
			adds = append(adds, vfSent{p, req})
			if len(e.provs.added) == 0 {
				localFirst = false
			}
			if vfBool("addprovider.fails") {
				return nil, errors.New("rpc failed")
			}
			return nil, nil
		}
		return nil, errors.New("unexpected request")
	}

	err := d.Provide(ctx, c, true)

	vfWaitIdle()
	vfAssert(err == nil, "provide/succeeds-when-the-lookup-succeeds")
	vfAssert(len(e.provs.added) == 1 && e.provs.added[0].prov.ID == d.self && e.provs.added[0].key == string(c.Hash()), "provide/records-the-local-node-as-provider")
	nKept := 0
	for _, a := range e.host.addrs {
		if keep[string(a.Bytes())] {
			nKept++
		}
	}
	for _, p := range ids {
		n := 0
		for _, s := range adds {
			if s.to != p {
				continue
			}
			n++
			pp := s.msg.GetProviderPeers()
			vfAssert(string(s.msg.GetKey()) == string(c.Hash()), "provide/announces-the-right-key")
			vfAssert(len(pp) == 1 && peer.ID(pp[0].Id) == d.self, "provide/announcement-names-exactly-the-local-peer")
			if len(pp) == 1 {
				vfAssert(len(pp[0].Addrs) == nKept && nKept > 0, "provide/announcement-carries-the-non-empty-filtered-addresses")
			}
		}
		if findFails[p] || nKept == 0 {
			vfAssert(n == 0, "provide/no-announcement-without-addresses-or-to-peers-outside-the-lookup-result")
		} else {
			vfAssert(n == 1 && localFirst, "provide/one-announcement-per-closest-peer-after-the-local-record")
		}
	}
	vfAssert(vfLiveGoroutines() == 1, "provide/no-goroutine-left-behind")
	vfReach("provide/end")
}

// VfFindProviders (C08): what FindProvidersAsync yields.
func VfFindProviders() {
	P := vfParam("P")
	vfHashBits(vfParam("W"))
	e, ids, _ := vfClientEnv(P+1, P)
	d := e.dht
	ctx, cancel := context.WithCancel(context.Background())
	defer cancel()
	c := vfCid("content")
	vfSchedBudget(vfParam("SWITCH"))
	count := vfParam("MINCOUNT") + vfChoose("count", vfParam("MAXCOUNT")-vfParam("MINCOUNT")+1)
	cand := []peer.ID{peer.ID("prov-a"), peer.ID("prov-b"), peer.ID("prov-c")}
	// local providers
	nLocal := vfChoose("nLocal", 2)
	localNamed := map[peer.ID]bool{}
	for i := 0; i < nLocal; i++ {
		ai := peer.AddrInfo{ID: cand[i]}
		e.provs.have[string(c.Hash())] = append(e.provs.have[string(c.Hash())], ai)
		localNamed[cand[i]] = true
	}
	named := map[peer.ID]bool{}
	withAddr := map[peer.ID]bool{}
	asked := 0
	yieldedWhenAsked := map[peer.ID]int{}
	var yielded []peer.AddrInfo
	e.sender.reply = func(_ context.Context, p peer.ID, req *pb.Message) (*pb.Message, error) {
		if req.Type != pb.Message_GET_PROVIDERS {
			return nil, errors.New("unexpected request")
		}
		asked++
		yieldedWhenAsked[p] = len(yielded)
		if vfBool("peer.fails") {
			return nil, errors.New("rpc failed")
		}
		resp := pb.NewMessage(pb.Message_GET_PROVIDERS, req.Key, 0)
		n := vfChoose("peer.nProviders", vfParam("R")+1)
		for i := 0; i < n; i++ {
			id := cand[vfChoose("peer.provider", len(cand))]
			rec := &pb.Message_Peer{Id: []byte(id)}
			if vfBool("peer.providerHasAddr") {
				rec.Addrs = [][]byte{vfAddr(70).Bytes()}
				withAddr[id] = true
			}
			named[id] = true
			resp.ProviderPeers = append(resp.ProviderPeers, rec)
		}
		return resp, nil
	}
	if vfBool("providerStoreFails") {
		// the local provider store cannot be read (closed, failing datastore): the
		// search ends, and its channel is closed all the same
		e.provs.getErr = true
		n := 0
		for range d.FindProvidersAsync(ctx, c, count) {
			n++
		}
		vfWaitIdle()
		vfAssert(n == 0, "findproviders/nothing-yielded-when-the-local-store-fails")
		vfAssert(vfLiveGoroutines() == 1, "findproviders/no-goroutine-left-behind")
		vfReach("findproviders/store-failure-end")
		return
	}
	ch := d.FindProvidersAsync(ctx, c, count)
	cancelAfter := -1
	if vfParam("CANCEL") == 1 && vfBool("cancelEarly") {
		cancelAfter = vfChoose("cancelAfter", 2)
	}
	for ai := range ch {
		yielded = append(yielded, ai)
		if len(yielded)-1 == cancelAfter {
			cancel()
		}
	}
	// the channel was closed (we left the loop); now the background work ends
	vfWaitIdle()
	distinct := map[peer.ID]int{}
	for i, ai := range yielded {
		vfAssert(localNamed[ai.ID] || named[ai.ID], "findproviders/only-stored-or-reported-providers")
		if distinct[ai.ID] > 0 {
			// a repeat only adds addresses that were first missing
			firstHadAddrs := false
			for j := 0; j < i; j++ {
				if yielded[j].ID == ai.ID && len(yielded[j].Addrs) > 0 {
					firstHadAddrs = true
				}
			}
			vfAssert(!firstHadAddrs && len(ai.Addrs) > 0, "findproviders/repeat-only-to-add-missing-addresses")
		}
		distinct[ai.ID]++
	}
	if count > 0 {
		vfAssert(len(distinct) <= count, "findproviders/at-most-count-distinct-peers")
		for _, p := range ids {
			if vfParam("SWITCH") > 0 {
				break // requests already in flight when count is reached cannot be recalled
			}
			if n, ok := yieldedWhenAsked[p]; ok {
				// a peer is only asked while fewer than count distinct providers are out
				d0 := map[peer.ID]bool{}
				for j := 0; j < n; j++ {
					d0[yielded[j].ID] = true
				}
				vfAssert(len(d0) < count, "findproviders/stops-asking-once-count-is-reached")
			}
		}
	} else if cancelAfter < 0 {
		for id := range named {
			vfAssert(distinct[id] > 0, "findproviders/count-0-yields-every-reported-provider")
		}
		for id := range localNamed {
			vfAssert(distinct[id] > 0, "findproviders/count-0-yields-every-stored-provider")
		}
	}
	vfAssert(vfLiveGoroutines() == 1, "findproviders/no-goroutine-left-behind")
	vfReach("findproviders/end")
}

var _ = vfRegister("VfSearchValue", VfSearchValue)
var _ = vfRegister("VfPutValue", VfPutValue)
var _ = vfRegister("VfProvide", VfProvide)
var _ = vfRegister("VfFindProviders", VfFindProviders)

// VfProcessValues (C04-H1): the selection loop with an arbitrary quorum.
func VfProcessValues() {
	L := vfParam("L")
	e, _, _ := vfClientEnv(2, 1)
	d := e.dht
	ctx := context.Background()
	n := vfChoose("nValues", L+1)
	nvals := vfChoose("quorum", L+1)
	vals := make(chan recvdVal, L)
	ranks := make([]byte, n)
	for i := 0; i < n; i++ {
		ranks[i] = vfU8("rank")
		vals <- recvdVal{Val: []byte{1, ranks[i]}, From: peer.ID("sender-" + string(rune('a'+i%2)))}
	}
	close(vals)
	out := make(chan []byte, L+1)
	stopCh := make(chan struct{})
	best, withBest, aborted := d.searchValueQuorum(ctx, "/vf/key", vals, stopCh, out, nvals)
	close(out)
	var emitted [][]byte
	for v := range out {
		emitted = append(emitted, v)
	}
	// the values processed before the search ended: all of them, or the first
	// quorum+1 when a quorum is set
	processed := n
	if nvals > 0 && n > nvals {
		processed = nvals + 1
	}
	for i := 1; i < len(emitted); i++ {
		vfAssert(emitted[i][1] > emitted[i-1][1], "process/emitted-values-strictly-improve")
	}
	if processed == 0 {
		vfAssert(best == nil && len(emitted) == 0, "process/nothing-from-nothing")
	} else {
		vfAssert(len(emitted) > 0 && best != nil, "process/some-value-is-yielded")
		for i := 0; i < processed; i++ {
			vfAssert(len(emitted) > 0 && emitted[len(emitted)-1][1] >= ranks[i], "process/final-yielded-value-is-at-least-as-good-as-every-processed-value")
		}
		vfAssert(best != nil && len(emitted) > 0 && best[1] == emitted[len(emitted)-1][1], "process/best-is-the-last-yielded-value")
		// peersWithBest = exactly the senders of the final best value among the processed ones
		for s := 0; s < 2; s++ {
			id := peer.ID("sender-" + string(rune('a'+s)))
			sent := false
			for i := 0; i < processed; i++ {
				if i%2 == s && best != nil && ranks[i] == best[1] {
					sent = true
				}
			}
			_, has := withBest[id]
			vfAssert(has == sent, "process/peers-with-best-are-exactly-the-senders-of-the-best-value")
		}
	}
	vfAssert(aborted == (nvals > 0 && n > nvals), "process/aborts-iff-the-quorum-is-exceeded")
	vfReach("process/end")
}

// vfFakePubKey stands for a decoded public key; which peer ID it hashes to is
// decided by the (intercepted) peer.IDFromPublicKey.
type vfFakePubKey struct {
	ci.PubKey
	tag byte
}

var vfDerivedID peer.ID
var vfUnmarshalFails, vfDeriveFails bool

func vfModelUnmarshalPublicKey(data []byte) (ci.PubKey, error) {
	if vfUnmarshalFails {
		return nil, errors.New("bad key")
	}
	return &vfFakePubKey{tag: 1}, nil
}

func vfModelIDFromPublicKey(pk ci.PubKey) (peer.ID, error) {
	if vfDeriveFails {
		return "", errors.New("cannot derive id")
	}
	return vfDerivedID, nil
}

//verif:intercept VfPublicKeyFromNode github.com/libp2p/go-libp2p/core/crypto.UnmarshalPublicKey = vfModelUnmarshalPublicKey
//verif:intercept VfPublicKeyFromNode github.com/libp2p/go-libp2p/core/peer.IDFromPublicKey = vfModelIDFromPublicKey

// VfPublicKeyFromNode (C04-H4): a public key obtained from the node itself is
// returned only if it hashes to the requested peer ID. Key decoding and ID
// derivation are arbitrary functions (intercepted models).
func VfPublicKeyFromNode() {
	e, _, _ := vfClientEnv(2, 1)
	d := e.dht
	p := peer.ID("the-peer")
	other := peer.ID("another-peer")
	vfUnmarshalFails = vfBool("unmarshalFails")
	vfDeriveFails = vfBool("deriveFails")
	matches := vfBool("keyHashesToRequestedPeer")
	vfDerivedID = other
	if matches {
		vfDerivedID = p
	}
	kind := vfChoose("answer", 4)
	e.sender.reply = func(_ context.Context, to peer.ID, req *pb.Message) (*pb.Message, error) {
		switch kind {
		case 0:
			return nil, errors.New("rpc failed")
		case 1:
			return pb.NewMessage(pb.Message_GET_VALUE, req.Key, 0), nil // no record
		case 2:
			resp := pb.NewMessage(pb.Message_GET_VALUE, req.Key, 0)
			resp.Record = &recpb.Record{Key: []byte("/pk/someone-else"), Value: []byte("key-bytes")}
			return resp, nil
		}
		resp := pb.NewMessage(pb.Message_GET_VALUE, req.Key, 0)
		resp.Record = &recpb.Record{Key: req.Key, Value: []byte("key-bytes")}
		return resp, nil
	}
	pk, err := d.getPublicKeyFromNode(context.Background(), p)
	vfAssert((pk == nil) != (err == nil), "pubkey/key-xor-error")
	if pk != nil {
		vfAssert(kind == 3 && !vfUnmarshalFails && !vfDeriveFails && matches, "pubkey/returned-key-hashes-to-the-requested-peer")
	}
	if kind == 3 && !vfUnmarshalFails && !vfDeriveFails && matches {
		vfAssert(pk != nil, "pubkey/matching-key-is-returned")
	}
	vfReach("pubkey/end")
}

var _ = vfRegister("VfProcessValues", VfProcessValues)
var _ = vfRegister("VfPublicKeyFromNode", VfPublicKeyFromNode)

// vfHookDS: a datastore that lets something happen right after the first read
// of a key (another request being served between two steps of an operation).
type vfHookDS struct {
	ds.Batching
	afterGet func()
	failPut  bool
}

func (d *vfHookDS) Get(ctx context.Context, k ds.Key) ([]byte, error) {
	v, err := d.Batching.Get(ctx, k)
	if f := d.afterGet; f != nil {
		d.afterGet = nil
		f()
	}
	return v, err
}

func (d *vfHookDS) Put(ctx context.Context, k ds.Key, v []byte) error {
	if d.failPut {
		return errors.New("datastore write failed")
	}
	return d.Batching.Put(ctx, k, v)
}

// VfPutValueRace (C05, C06): a remote PUT_VALUE served between PutValue's read
// of the local record and its write; or a local store that cannot be written.
// A worse value is never pushed to the network as if it had been accepted.
func VfPutValueRace() {
	P := vfParam("P")
	vfHashBits(vfParam("W"))
	vfHashFixed()
	e, _, _ := vfClientEnv(P+1, P)
	d := e.dht
	hds := &vfHookDS{Batching: dssync.MutexWrap(ds.NewMapDatastore())}
	d.valueStore = records.NewValueStore(hds, d.Validator, 0)
	key := string(vfHashInput("key", []byte("/vf/"), 4))
	ctx := context.Background()
	var puts []vfSent
	e.sender.reply = func(_ context.Context, p peer.ID, req *pb.Message) (*pb.Message, error) {
		switch req.Type {
		case pb.Message_FIND_NODE:
			return pb.NewMessage(pb.Message_FIND_NODE, nil, 0), nil
		case pb.Message_PUT_VALUE:
			puts = append(puts, vfSent{p, req})
			return req, nil
		}
		return nil, errors.New("unexpected request")
	}
	mine := vfU8("local.rank")
	if vfBool("localStoreCannotBeWritten") {
		hds.failPut = true
		err := d.PutValue(ctx, key, []byte{1, mine})
		vfWaitIdle()
		vfAssert(err != nil, "putvalue/fails-when-the-record-cannot-be-stored-locally")
		vfAssert(len(puts) == 0, "putvalue/nothing-is-sent-for-a-record-that-is-not-stored-locally")
		vfReach("putvaluerace/local-failure-end")
		return
	}
	theirs := vfU8("remote.rank")
	remoteAcked := false
	hds.afterGet = func() {
		req := pb.NewMessage(pb.Message_PUT_VALUE, []byte(key), 0)
		req.Record = &recpb.Record{Key: []byte(key), Value: []byte{1, theirs}}
		_, rerr := d.handlePutValue(ctx, peer.ID("remote-writer"), req)
		remoteAcked = rerr == nil
	}
	err := d.PutValue(ctx, key, []byte{1, mine})
	vfWaitIdle()
	vfAssert(remoteAcked, "putvaluerace/remote-put-into-an-empty-store-is-acknowledged")
	rec, gerr := d.valueStore.Get(ctx, key)
	vfAssert(gerr == nil && rec != nil, "putvaluerace/something-is-stored")
	if rec != nil {
		best := theirs
		if mine > best {
			best = mine
		}
		vfAssert(rec.GetValue()[1] == best, "putvaluerace/the-store-holds-the-better-record")
	}
	if theirs > mine {
		vfAssert(err != nil, "putvalue/refused-when-a-better-value-was-stored-meanwhile")
		vfAssert(len(puts) == 0, "putvalue/a-refused-value-is-not-pushed-to-the-network")
	}
	if err == nil {
		for _, s := range puts {
			vfAssert(s.msg.GetRecord().GetValue()[1] == mine, "putvalue/sends-the-same-record")
		}
	}
	vfReach("putvaluerace/end")
}

var _ = vfRegister("VfPutValueRace", VfPutValueRace)

// VfProvideDeadline (C03, C06): classic Provide under a caller deadline, with
// lookup requests that take (virtual) time: it returns by the deadline, leaves
// no goroutine, and when only the inner (lookup) deadline was exceeded the
// peers found so far still get the record.
func VfProvideDeadline() {
	P := vfParam("P")
	vfHashBits(vfParam("W"))
	vfHashFixed()
	e, ids, _ := vfClientEnv(P+1, P)
	d := e.dht
	c := vfCid("content")
	deadlines := []time.Duration{5 * time.Second, 30 * time.Second}
	D := deadlines[vfChoose("deadline", len(deadlines))]
	delays := []time.Duration{time.Second, 6 * time.Second, 40 * time.Second}
	slow := map[peer.ID]time.Duration{}
	var adds []vfSent
	e.sender.reply = func(rctx context.Context, p peer.ID, req *pb.Message) (*pb.Message, error) {
		switch req.Type {
		case pb.Message_FIND_NODE:
			dl, ok := slow[p]
			if !ok {
				dl = delays[vfChoose("findnode.delay", len(delays))]
				slow[p] = dl
			}
			t := time.NewTimer(dl)
			defer t.Stop()
			select {
			case <-t.C:
			case <-rctx.Done():
				return nil, rctx.Err()
			}
			return pb.NewMessage(pb.Message_FIND_NODE, nil, 0), nil
		case pb.Message_ADD_PROVIDER:
			adds = append(adds, vfSent{p, req})
			return nil, nil
		}
		return nil, errors.New("unexpected request")
	}
	start := time.Now()
	ctx, cancel := context.WithTimeout(context.Background(), D)
	defer cancel()
	err := d.Provide(ctx, c, true)
	took := time.Since(start)
	vfWaitIdle()
	vfAssert(took <= D+time.Second, "provide/returns-by-the-callers-deadline")
	answeredInTime := 0
	reserve := D / 10
	if D >= 10*time.Second {
		reserve = time.Second
	}
	for _, p := range ids {
		if dl, ok := slow[p]; ok && dl < D-reserve {
			answeredInTime++
		}
	}
	if answeredInTime == len(ids) && took < D-reserve {
		vfAssert(err == nil, "provide/succeeds-when-the-lookup-finishes-in-time")
	}
	if err == nil {
		vfAssert(len(adds) == len(ids), "provide/one-announcement-per-closest-peer")
	}
	if answeredInTime < len(ids) {
		// the lookup cannot finish before its (inner) deadline, which leaves room
		// before the caller's: the peers found so far get the record
		for _, p := range ids {
			if dl, ok := slow[p]; ok && dl < D-reserve {
				n := 0
				for _, t := range adds {
					if t.to == p {
						n++
					}
				}
				vfAssert(n == 1, "provide/peers-found-before-the-lookup-deadline-still-get-the-record")
			}
		}
	}
	for _, s := range adds {
		pp := s.msg.GetProviderPeers()
		vfAssert(string(s.msg.GetKey()) == string(c.Hash()) && len(pp) == 1 && peer.ID(pp[0].Id) == d.self, "provide/announcement-names-exactly-the-local-peer")
		n := 0
		for _, t := range adds {
			if t.to == s.to {
				n++
			}
		}
		vfAssert(n == 1, "provide/at-most-one-announcement-per-peer")
	}
	vfAssert(len(e.provs.added) == 1, "provide/records-the-local-node-as-provider")
	cancel()
	vfWaitIdle()
	vfAssert(vfLiveGoroutines() == 1, "provide/no-goroutine-left-behind")
	vfReach("providedeadline/end")
}

var _ = vfRegister("VfProvideDeadline", VfProvideDeadline)

// VfCorrectivePuts (C06): one peer more than the bucket size, some dead: after a
// completed value search the corrective puts reach live peers of the result - a
// dead peer among the nearest does not use up the place of a live one.
func VfCorrectivePuts() {
	P := vfParam("P")
	K := P - 1
	vfHashBits(vfParam("W"))
	vfHashFixed()
	e, ids, _ := vfClientEnv(K, P)
	d := e.dht
	key := string(vfHashInput("key", []byte("/vf/"), 4))
	ctx := context.Background()
	dead := map[peer.ID]bool{}
	hasBest := map[peer.ID]bool{}
	answered := map[peer.ID]bool{}
	puts := map[peer.ID]int{}
	e.sender.reply = func(_ context.Context, p peer.ID, req *pb.Message) (*pb.Message, error) {
		switch req.Type {
		case pb.Message_GET_VALUE:
			if _, ok := dead[p]; !ok {
				dead[p] = vfBool("peer.isDead")
				if !dead[p] {
					hasBest[p] = vfBool("peer.hasTheBestValue")
				}
			}
			if dead[p] {
				return nil, errors.New("rpc failed")
			}
			answered[p] = true
			resp := pb.NewMessage(pb.Message_GET_VALUE, req.Key, 0)
			rank := byte(1)
			if hasBest[p] {
				rank = 9
			}
			resp.Record = &recpb.Record{Key: []byte(key), Value: []byte{1, rank}}
			for _, q := range ids { // every live peer knows the whole network
				resp.CloserPeers = append(resp.CloserPeers, &pb.Message_Peer{Id: []byte(q), Addrs: [][]byte{vfAddr(60).Bytes()}})
			}
			return resp, nil
		case pb.Message_PUT_VALUE:
			puts[p]++
			if dead[p] {
				return nil, errors.New("rpc failed")
			}
			return req, nil
		}
		return nil, errors.New("unexpected request")
	}
	ch, err := d.SearchValue(ctx, key, Quorum(0))
	vfAssert(err == nil, "search/starts")
	for range ch {
	}
	vfAdvance(time.Second)
	vfWaitIdle()
	A, B, got := 0, 0, 0
	anyBest := false
	for _, p := range ids {
		vfAssert(puts[p] <= 1, "search/at-most-one-corrective-put-per-peer")
		if answered[p] {
			A++
			if hasBest[p] {
				B++
				anyBest = true
				vfAssert(puts[p] == 0, "search/peers-that-returned-the-best-value-are-not-corrected")
			} else if puts[p] == 1 {
				got++
			}
		}
	}
	if anyBest {
		want := K
		if A < K {
			want = A
		}
		vfAssert(got >= want-B, "search/a-dead-peer-does-not-use-up-the-corrective-put-of-a-live-one")
	}
	vfAssert(vfLiveGoroutines() == 1, "search/no-goroutine-left-behind")
	vfReach("correctiveputs/end")
}

var _ = vfRegister("VfCorrectivePuts", VfCorrectivePuts)
