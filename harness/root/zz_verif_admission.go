//go:build verif

package dht

import (
	"context"
	"errors"

	"github.com/libp2p/go-libp2p/core/event"
	"github.com/libp2p/go-libp2p/core/network"
	"github.com/libp2p/go-libp2p/core/peer"
	"github.com/libp2p/go-libp2p/core/protocol"

	pb "github.com/libp2p/go-libp2p-kad-dht/pb"
)

// VfAdmission (C12-H1/H3): who is offered to / admitted into the routing
// table by the admission probe and by protocol-change events, with the real
// rtPeerLoop doing the additions.
func VfAdmission() {
	K := vfParam("K")
	vfHashBits(vfParam("W"))
	e := vfNewEnv(K, 3, 1)
	d := e.dht
	nMembers := vfChoose("tableSize", K+1)
	members := e.vfFillTable(nMembers)
	cand := vfPeer(nMembers) // the candidate (not yet a member)
	// (the local node itself is never passed here: libp2p neither connects to nor
	// identifies itself, and lookups drop self - see C01's update-state harness)
	if vfBool("candidateIsMember") && nMembers > 0 {
		cand = members[0]
	}
	speaks := vfBool("advertisesProtocol")
	if speaks {
		e.ps.protos[cand] = []protocol.ID{d.protocols[0]}
	}
	e.ps.protoErr[cand] = vfBool("peerstoreFails")
	passes := vfBool("passesTableFilter")
	d.routingTablePeerFilter = func(any, peer.ID) bool { return passes }
	d.lookupCheckCapacity = vfChoose("probeCapacity", 2)
	probe := vfChoose("probeOutcome", 3) // 0 error, 1 empty answer, 2 non-empty answer
	probes := 0
	e.sender.reply = func(_ context.Context, p peer.ID, req *pb.Message) (*pb.Message, error) {
		probes++
		vfAssert(p == cand && req.Type == pb.Message_FIND_NODE, "admission/probe-is-a-lookup-request-to-the-candidate")
		switch probe {
		case 0:
			return nil, errors.New("no answer")
		case 1:
			return pb.NewMessage(pb.Message_FIND_NODE, nil, 0), nil
		}
		resp := pb.NewMessage(pb.Message_FIND_NODE, nil, 0)
		resp.CloserPeers = []*pb.Message_Peer{{Id: []byte("someone")}}
		return resp, nil
	}
	d.rtPeerLoop()
	wasMember := d.routingTable.Find(cand) != ""
	// how the node hears about the peer: found (connected peers, lookups), or one of
	// the two identify events, delivered through the real subscriber loop
	how := vfChoose("heardVia", 4)
	viaEvent := how != 0
	switch how {
	case 0:
		d.peerFound(cand)
	case 1:
		handlePeerChangeEvent(d, cand)
	default:
		bus := &vfBus{}
		e.host.bus = bus
		vfAssert(d.startNetworkSubscriber() == nil && len(bus.subs) == 1, "admission/subscribes")
		if how == 2 {
			bus.subs[0].out <- event.EvtPeerProtocolsUpdated{Peer: cand}
		} else {
			bus.subs[0].out <- event.EvtPeerIdentificationCompleted{Peer: cand}
		}
	}
	vfWaitIdle()
	isMember := d.routingTable.Find(cand) != ""
	answered := probe == 2 || (probe == 1 && nMembers < K)
	if isMember && !wasMember {
		vfAssert(speaks && !e.ps.protoErr[cand] && passes, "admission/only-peers-that-advertise-the-protocol-and-pass-the-filter")
		vfAssert(probes >= 1 && answered, "admission/only-after-a-correctly-answered-request")
	}
	vfAssert(d.routingTable.Find(d.self) == "", "admission/local-node-is-never-a-member")
	if viaEvent && wasMember && !e.ps.protoErr[cand] && (!speaks || !passes) {
		vfAssert(!isMember, "admission/member-that-stopped-supporting-the-protocol-is-removed")
	}
	if wasMember && (speaks && passes || e.ps.protoErr[cand] || !viaEvent) {
		vfAssert(isMember, "admission/valid-member-is-not-removed")
	}
	e.cancel()
	d.wg.Wait()
	vfWaitIdle()
	vfAssert(vfLiveGoroutines() == 1, "admission/no-goroutine-left")
	_ = network.Connected
	vfReach("admission/end")
}

var _ = vfRegister("VfAdmission", VfAdmission)
