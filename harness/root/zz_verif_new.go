//go:build verif

package dht

import (
	"context"
	"errors"

	"github.com/libp2p/go-libp2p/core/connmgr"
	"github.com/libp2p/go-libp2p/core/event"
	"github.com/libp2p/go-libp2p/core/host"
	"github.com/libp2p/go-libp2p/core/network"
	"github.com/libp2p/go-libp2p/core/peer"
	"github.com/libp2p/go-libp2p/core/protocol"
	ma "github.com/multiformats/go-multiaddr"

	pb "github.com/libp2p/go-libp2p-kad-dht/pb"
)

// the real constructor of the standard client on the fake host (C14).

type vfFailBus struct {
	vfBus
	failAt, calls int
}

func (b *vfFailBus) Subscribe(evts any, o ...event.SubscriptionOpt) (event.Subscription, error) {
	b.calls++
	if b.calls == b.failAt {
		return nil, errors.New("subscribe failed")
	}
	return b.vfBus.Subscribe(evts, o...)
}

type vfNewHost struct {
	vfHost
	fbus *vfFailBus
}

func (h *vfNewHost) EventBus() event.Bus              { return h.fbus }
func (h *vfNewHost) ConnManager() connmgr.ConnManager { return connmgr.NullConnMgr{} }

func (n *vfNetwork) Peers() []peer.ID            { return nil }
func (n *vfNetwork) Notify(network.Notifiee)     {}
func (n *vfNetwork) StopNotify(network.Notifiee) {}

// VfDHTNew (C14): the real dht.New with a construction fault (invalid mode
// after the stores were started, a failing event-bus subscription) leaves no
// goroutine and no subscription; a successful one is closed cleanly.
func VfDHTNew() {
	vfHashReal() // no hash placement matters here; the real function keeps the native replay exact
	self := peer.ID("the-local-peer")
	ps := &vfPeerstore{addrs: map[peer.ID][]ma.Multiaddr{}, protos: map[peer.ID][]protocol.ID{}, protoErr: map[peer.ID]bool{}}
	nw := &vfNetwork{connected: map[peer.ID]network.Connectedness{}}
	h := &vfNewHost{fbus: &vfFailBus{}}
	h.vfHost = vfHost{id: self, ps: ps, nw: nw, handlers: map[protocol.ID]bool{}, connectErr: map[peer.ID]bool{}, addrs: []ma.Multiaddr{vfAddr(1)}}
	snd := &vfSender{reply: func(context.Context, peer.ID, *pb.Message) (*pb.Message, error) {
		return nil, errors.New("no script")
	}}
	acc := true
	modes := []ModeOpt{ModeAuto, ModeClient, ModeServer, ModeAutoServer}
	opts := []Option{ProtocolPrefix("/vf"), Validator(vfRankValidator{&acc}), BucketSize(2),
		WithCustomMessageSender(func(host.Host, []protocol.ID) pb.MessageSenderWithDisconnect { return snd }),
		Mode(modes[vfChoose("mode", len(modes))])}
	fault := vfChoose("fault", 3)
	switch fault {
	case 1:
		opts = append(opts, Mode(ModeOpt(99))) // rejected only after the record stores were started
	case 2:
		h.fbus.failAt = 1 + vfChoose("failingSubscription", 2)
	}
	d, err := New(h, opts...)
	if fault == 1 || (fault == 2 && h.fbus.calls >= h.fbus.failAt) {
		vfAssert(err != nil && d == nil, "new/faulty-construction-is-an-error")
		vfWaitIdle()
		vfAssert(vfLiveGoroutines() == 1, "new/failed-constructor-leaves-no-goroutine")
		for _, s := range h.fbus.subs {
			vfAssert(s.closed, "new/failed-constructor-leaves-no-subscription")
		}
		vfReach("new/failed-end")
		return
	}
	vfAssert(err == nil && d != nil, "new/constructor")
	vfWaitIdle()
	// the initial mode follows the option, and the node serves exactly in server mode
	wantServer := d.auto == ModeServer || d.auto == ModeAutoServer
	vfAssert((d.getMode() == modeServer) == wantServer, "new/initial-mode-follows-the-mode-option")
	for _, p := range d.serverProtocols {
		vfAssert(h.handlers[p] == wantServer, "new/stream-handlers-registered-exactly-in-server-mode")
	}
	vfAssert(d.Close() == nil, "new/close")
	vfWaitIdle()
	vfAssert(vfLiveGoroutines() == 1, "new/close-leaves-no-goroutine")
	for _, s := range h.fbus.subs {
		vfAssert(s.closed, "new/close-ends-every-subscription")
	}
	vfAssert(d.Close() == nil, "new/close-may-be-called-again")
	vfReach("new/end")
}

var _ = vfRegister("VfDHTNew", VfDHTNew)
