//go:build verif

package dht

import (
	"context"
	"strconv"
	"time"

	"github.com/libp2p/go-libp2p/core/peer"

	"github.com/libp2p/go-libp2p-kad-dht/qpeerset"
)

// ---- shared helpers for the lookup harnesses (C01, C02, C03) ----

func vfPeer(i int) peer.ID { return peer.ID(vfHashInput("p"+strconv.Itoa(i), nil, 8)) }

func vfTargetKey() string { return string(vfHashInput("target", nil, 8)) }

// vfDistLess reports dist(key,a) < dist(key,b) (XOR of the SHA-256 digests) as
// a single boolean, computed with the same hash stub the code under test sees.
func vfDistLess(key string, a, b peer.ID) bool {
	hk, ha, hb := vfHash([]byte(key)), vfHash([]byte(a)), vfHash([]byte(b))
	lt := false
	eq := true
	for i := range hk {
		da, db := hk[i]^ha[i], hk[i]^hb[i]
		lt = vfOr(lt, vfAnd(eq, da < db))
		eq = vfAnd(eq, da == db)
	}
	return lt
}

func vfIndexOf(ids []peer.ID, p peer.ID) int {
	for i, x := range ids {
		if x == p {
			return i
		}
	}
	return -1
}

// vfArbitraryPeerset builds, through the real API, a peer set of n peers with
// arbitrary (symbolic) identifiers and arbitrary states.
func vfArbitraryPeerset(key string, n int) (*qpeerset.QueryPeerset, []peer.ID, []qpeerset.PeerState) {
	qp := qpeerset.NewQueryPeerset(key)
	ids := make([]peer.ID, n)
	st := make([]qpeerset.PeerState, n)
	for i := 0; i < n; i++ {
		ids[i] = vfPeer(i)
		qp.TryAdd(ids[i], "referrer")
		st[i] = qpeerset.PeerState(vfChoose("state", 4))
		qp.SetState(ids[i], st[i])
	}
	return qp, ids, st
}

func vfBareQuery(key string, qp *qpeerset.QueryPeerset, K, alpha, beta int) *query {
	d := &IpfsDHT{bucketSize: K, alpha: alpha, beta: beta, self: peer.ID(vfHashInput("self", nil, 8))}
	return &query{dht: d, key: key, ctx: context.Background(), queryPeers: qp, peerTimes: map[peer.ID]time.Duration{},
		stopFn: func(*qpeerset.QueryPeerset) bool { return false }}
}

// VfLookupResult (C01-H1): from ANY peer-set state the constructed result is
// exactly the K nearest non-failed peers, in strictly ascending distance.
func VfLookupResult() {
	N := vfParam("N")
	vfHashBits(vfParam("W"))
	n := 1 + vfChoose("n", N)
	K := vfRange("K", 1, N+1)
	beta := vfRange("beta", 1, N)
	key := vfTargetKey()
	qp, ids, st := vfArbitraryPeerset(key, n)
	q := vfBareQuery(key, qp, K, 3, beta)

	res := q.constructLookupResult()

	alive := 0
	for i := range ids {
		if st[i] != qpeerset.PeerUnreachable {
			alive++
		}
	}
	vfAssert(len(res.peers) <= K, "result/at-most-K")
	vfAssert(vfOr(len(res.peers) == K, len(res.peers) == alive), "result/full-or-all-non-failed-peers")
	vfAssert(len(res.state) == len(res.peers), "result/one-state-per-peer")
	in := make([]bool, n)
	for j, p := range res.peers {
		i := vfIndexOf(ids, p)
		vfAssert(i >= 0, "result/only-learned-peers")
		if i < 0 {
			return
		}
		vfAssert(!in[i], "result/distinct")
		in[i] = true
		vfAssert(st[i] != qpeerset.PeerUnreachable, "result/no-failed-peer")
		vfAssert(res.state[j] == st[i], "result/reported-state-is-the-peer's-state")
		vfAssert(p != q.dht.self, "result/never-self")
		if j > 0 {
			vfAssert(vfDistLess(key, res.peers[j-1], p), "result/strictly-ascending-xor-distance")
		}
	}
	// no omission: every non-failed peer left out is farther than every returned one
	for i := range ids {
		if in[i] || st[i] == qpeerset.PeerUnreachable {
			continue
		}
		for _, p := range res.peers {
			vfAssert(vfDistLess(key, p, ids[i]), "result/no-nearer-non-failed-peer-omitted")
		}
	}
	vfReach("result/end")
}

// VfEndCondition (C02-H1): the end condition from ANY state.
func VfEndCondition() {
	N := vfParam("N")
	vfHashBits(vfParam("W"))
	n := 1 + vfChoose("n", N)
	beta := vfRange("beta", 1, N)
	alpha := 3
	nToQuery := vfRange("nToQuery", 0, alpha)
	key := vfTargetKey()
	qp, ids, st := vfArbitraryPeerset(key, n)
	q := vfBareQuery(key, qp, N, alpha, beta)
	stop := vfBool("stop")
	q.stopFn = func(*qpeerset.QueryPeerset) bool { return stop }

	ready, reason, next := q.isReadyToTerminate(nToQuery)

	heard, waiting := 0, 0
	for i := range ids {
		switch st[i] {
		case qpeerset.PeerHeard:
			heard++
		case qpeerset.PeerWaiting:
			waiting++
		}
	}
	// oracle for "the beta nearest non-failed peers have all answered":
	// peer i is among the beta nearest non-failed iff fewer than beta non-failed peers are nearer
	allAnswered := true
	for i := range ids {
		if st[i] == qpeerset.PeerUnreachable {
			continue
		}
		nearer := 0
		for j := range ids {
			if j != i && st[j] != qpeerset.PeerUnreachable {
				nearer += vfIte(vfDistLess(key, ids[j], ids[i]), 1, 0)
			}
		}
		amongBeta := nearer < beta
		allAnswered = vfAnd(allAnswered, vfImplies(amongBeta, st[i] == qpeerset.PeerQueried))
	}
	starved := heard == 0 && waiting == 0
	switch {
	case stop:
		vfAssert(ready && reason == LookupStopped, "end/stopped-when-stop-function-says-so")
	case starved:
		vfAssert(ready && reason == LookupStarvation, "end/starvation-iff-nothing-heard-or-waiting")
	default:
		vfAssert(ready == allAnswered, "end/completed-iff-beta-nearest-non-failed-all-answered")
		if ready {
			vfAssert(reason == LookupCompleted, "end/reason-completed")
		}
	}
	if !ready {
		// next peers: the min(n, #heard) nearest Heard peers, nearest first
		want := nToQuery
		if heard < want {
			want = heard
		}
		vfAssert(len(next) == want, "end/asks-min(n,heard)-peers-next")
		for j, p := range next {
			i := vfIndexOf(ids, p)
			vfAssert(i >= 0 && st[i] == qpeerset.PeerHeard, "end/next-peers-are-heard-peers")
			if j > 0 {
				vfAssert(vfDistLess(key, next[j-1], p), "end/next-peers-nearest-first")
			}
			for x := range ids {
				if st[x] == qpeerset.PeerHeard && vfIndexOf(next, ids[x]) < 0 {
					vfAssert(vfDistLess(key, p, ids[x]), "end/no-nearer-heard-peer-skipped")
				}
			}
		}
	} else {
		vfAssert(len(next) == 0, "end/no-next-peers-when-terminating")
	}
	vfReach("end/end")
}

// VfUpdateState (C01-H2 / C03-H1): one transition from ANY state satisfying
// the invariant "peers with an outstanding query are exactly the Waiting ones".
func VfUpdateState() {
	N := vfParam("N")
	vfHashBits(vfParam("W"))
	n := 1 + vfChoose("n", N)
	key := vfTargetKey()
	qp, ids, st := vfArbitraryPeerset(key, n)
	q := vfBareQuery(key, qp, N, 3, 1)

	// the update a finished queryPeer sends: cause is a Waiting peer
	c := vfChoose("cause", n)
	st[c] = qpeerset.PeerWaiting
	qp.SetState(ids[c], qpeerset.PeerWaiting)
	up := &queryUpdate{cause: ids[c]}
	failed := vfBool("failed")
	universe := append(append([]peer.ID{}, ids...), vfPeer(n), vfPeer(n+1), q.dht.self)
	var heard []peer.ID
	if failed {
		up.unreachable = []peer.ID{ids[c]}
	} else {
		up.queried = []peer.ID{ids[c]}
		h := vfChoose("nHeard", vfParam("H")+1)
		for x := 0; x < h; x++ {
			heard = append(heard, universe[vfChoose("heard", len(universe))])
		}
		up.heard = heard
	}

	q.updateState(context.Background(), up)

	for i := range ids {
		got := qp.GetState(ids[i])
		switch {
		case i == c && failed:
			vfAssert(got == qpeerset.PeerUnreachable, "update/failed-peer-becomes-unreachable")
		case i == c:
			vfAssert(got == qpeerset.PeerQueried, "update/answering-peer-becomes-queried")
		default:
			vfAssert(got == st[i], "update/other-peers-keep-their-state")
		}
	}
	all := qp.GetClosestInStates(qpeerset.PeerHeard, qpeerset.PeerWaiting, qpeerset.PeerQueried, qpeerset.PeerUnreachable)
	vfAssert(vfIndexOf(all, q.dht.self) < 0, "update/self-never-enters")
	seen := map[peer.ID]bool{}
	for _, p := range all {
		vfAssert(!seen[p], "update/no-duplicate-entries")
		seen[p] = true
		if vfIndexOf(ids, p) < 0 {
			vfAssert(vfIndexOf(heard, p) >= 0, "update/new-peers-were-named-in-the-response")
			vfAssert(qp.GetState(p) == qpeerset.PeerHeard, "update/new-peers-enter-as-heard")
		}
	}
	for _, p := range ids {
		vfAssert(seen[p], "update/nothing-is-removed")
	}
	for _, p := range heard {
		if p != q.dht.self {
			vfAssert(seen[p], "update/every-named-peer-is-learned")
		}
	}
	vfReach("update/end")
}

var _ = vfRegister("VfLookupResult", VfLookupResult)
var _ = vfRegister("VfEndCondition", VfEndCondition)
var _ = vfRegister("VfUpdateState", VfUpdateState)
