//go:build verif

package dht

import (
	"context"
	"errors"
	"time"

	"github.com/libp2p/go-libp2p/core/network"
	"github.com/libp2p/go-libp2p/core/peer"
	ma "github.com/multiformats/go-multiaddr"

	pb "github.com/libp2p/go-libp2p-kad-dht/pb"
	"github.com/libp2p/go-libp2p-kad-dht/qpeerset"
)

// VfQueryPeer (C01-H3, C10 cap, C12-H2): one peer query against a fake host.
func VfQueryPeer() {
	K := vfParam("K")
	vfHashBits(vfParam("W"))
	e := vfNewEnv(K, 3, 1)
	d := e.dht
	ids := e.vfFillTable(2)
	p := ids[0]
	target := vfTargetKey()
	universe := []peer.ID{ids[1], vfPeer(2), d.self, peer.ID(target)}

	connected := vfBool("alreadyConnected")
	if connected {
		e.host.nw.connected[p] = network.Connected
	}
	e.host.connectErr[p] = vfBool("dialFails")
	queryFails := vfBool("requestFails")
	// 0: both contexts live; 1: the lookup ended by itself and aborted its
	// outstanding dials (the caller's context is live); 2: the caller cancelled
	ctxState := vfChoose("contexts", 3)

	L := vfChoose("responseLen", 2*K+2)
	resp := make([]*peer.AddrInfo, L)
	passes := map[peer.ID]bool{}
	for i := range resp {
		id := universe[vfChoose("entry", len(universe))]
		resp[i] = &peer.AddrInfo{ID: id}
	}
	d.queryPeerFilter = func(_ any, ai peer.AddrInfo) bool {
		v, ok := passes[ai.ID]
		if !ok {
			v = vfBool("filter.pass")
			passes[ai.ID] = v
		}
		return v
	}
	ctx, cancel := context.WithCancel(context.Background())
	pathCtx, cancelPath := context.WithCancel(ctx)
	switch ctxState {
	case 1:
		cancelPath()
	case 2:
		cancel()
	}
	defer cancel()
	defer cancelPath()
	asked := 0
	q := &query{dht: d, key: target, ctx: ctx, queryPeers: qpeerset.NewQueryPeerset(target),
		queryFn: func(context.Context, peer.ID) ([]*peer.AddrInfo, error) {
			asked++
			if queryFails {
				return nil, errors.New("request failed")
			}
			return resp, nil
		}}
	// the lookup may run with the IP diversity limit configured (the response here
	// names peers without addresses, which the diversity filter lets through)
	q.maxPeersPerIPGroup = 3 * vfChoose("ipDiversityLimitConfigured", 2)
	ch := make(chan *queryUpdate, 1)
	q.waitGroup.Add(1)
	wasMember := d.routingTable.Find(p) != ""

	q.queryPeer(pathCtx, ch, p)

	up := <-ch
	isMember := d.routingTable.Find(p) != ""
	offered := e.drainAdded()
	dialFailed := !connected && (e.host.connectErr[p] || ctxState != 0)
	failed := dialFailed || queryFails
	vfAssert(wasMember, "querypeer/setup")
	vfAssert(up.cause == p, "querypeer/update-names-the-queried-peer")
	if failed {
		vfAssert(len(up.unreachable) == 1 && up.unreachable[0] == p && len(up.queried) == 0 && len(up.heard) == 0, "querypeer/failure-marks-only-that-peer-unreachable")
		vfAssert(len(offered) == 0, "querypeer/failed-peer-is-not-offered-to-the-routing-table")
		switch {
		case dialFailed && ctxState != 0:
			vfAssert(isMember, "querypeer/no-eviction-when-the-dial-was-aborted-by-cancellation")
		case !dialFailed && ctxState == 2:
			vfAssert(isMember, "querypeer/no-eviction-when-the-lookup-was-cancelled")
		default:
			vfAssert(!isMember, "querypeer/member-failing-dial-or-request-is-evicted")
		}
	} else {
		vfAssert(len(up.queried) == 1 && up.queried[0] == p && len(up.unreachable) == 0, "querypeer/success-marks-the-peer-queried")
		vfAssert(len(offered) == 1 && offered[0] == p, "querypeer/answering-peer-is-offered-to-the-routing-table")
		vfAssert(isMember, "querypeer/answering-member-stays")
		vfAssert(len(up.heard) <= 2*K, "querypeer/at-most-2K-peers-of-one-response-enter-the-lookup")
		// heard = entries among the first 2K that are not self and (pass the filter or are the target)
		var want []peer.ID
		for i, ai := range resp {
			if i >= 2*K {
				break
			}
			if ai.ID == d.self {
				continue
			}
			if string(ai.ID) == target || passes[ai.ID] {
				want = append(want, ai.ID)
			}
		}
		ok := len(want) == len(up.heard)
		for i := range want {
			if ok && want[i] != up.heard[i] {
				ok = false
			}
		}
		vfAssert(ok, "querypeer/heard-is-the-capped-filtered-response")
	}
	vfReach("querypeer/end")
}

// VfLookupRun (C01-H6, C02-H2/H4, C03-H2): the whole lookup with follow-up on a
// fake network whose answers and failures are arbitrary.
func VfLookupRun() {
	N, K, R := vfParam("N"), vfParam("K"), vfParam("R")
	vfHashBits(vfParam("W"))
	vfSchedBudget(vfParam("SWITCH"))
	if vfParam("CANCEL") == 1 {
		vfSchedLIFO(vfBool("scheduleMostRecentlyWokenFirst"))
	}
	alpha := 1 + vfChoose("alpha", 2)
	beta := 1 + vfChoose("beta", 2)
	e := vfNewEnv(K, alpha, beta)
	d := e.dht
	all := make([]peer.ID, N)
	for i := range all {
		all[i] = vfPeer(i)
		e.host.nw.connected[all[i]] = network.Connected
	}
	nSeeds := 1 + vfChoose("nSeeds", K)
	if nSeeds > N {
		nSeeds = N
	}
	for i := 0; i < nSeeds; i++ {
		d.routingTable.TryAddPeer(all[i], true, false)
	}
	target := vfTargetKey()
	if vfParam("SLOWDIAL") == 1 && vfBool("aPeerIsSlowToDial") {
		// one peer is not connected yet and its first dial hangs until the dial's
		// context ends: when the lookup ends first, that peer is still Waiting
		slow := all[vfChoose("slowDialPeer", N)]
		e.host.nw.connected[slow] = network.NotConnected
		e.host.connectSlowOnce = map[peer.ID]bool{slow: true}
	}
	if vfParam("DIVERSITY") == 1 {
		// the Amino setting: at most 2 peers of an IP group per bucket, 3 in the table;
		// responses are filtered with the table-wide limit
		d.rtPeerDiversityFilter = NewRTPeerDiversityFilter(e.host, 2, 3)
	}
	honest := vfParam("HONEST") == 1
	cancelAt := -1
	if vfParam("CANCEL") == 1 && vfBool("cancelDuringLookup") {
		cancelAt = vfChoose("cancelAtCall", 3)
	}
	ctx, cancel := context.WithCancel(context.Background())
	defer cancel()
	LookupEventBufferSize = 256
	ctx, evch := RegisterForLookupEvents(ctx)

	asked := map[peer.ID]int{}
	failedP := map[peer.ID]bool{}
	named := map[peer.ID]bool{}
	answers := map[peer.ID][]peer.ID{}
	calls := 0
	inFlight := 0
	queryFn := func(qctx context.Context, p peer.ID) ([]*peer.AddrInfo, error) {
		inFlight++
		defer func() { inFlight-- }()
		if calls == cancelAt {
			cancel()
		}
		calls++
		asked[p]++
		vfYield("rpc")
		if vfParam("CANCEL") == 1 {
			vfAdvance(time.Millisecond) // the RPC takes (virtual) time: the caller can run meanwhile
		}
		if qctx.Err() != nil {
			failedP[p] = true
			return nil, qctx.Err()
		}
		if !honest && vfBool("peerFails") {
			failedP[p] = true
			return nil, errors.New("rpc failed")
		}
		var out []*peer.AddrInfo
		if honest {
			// every peer knows the whole network and answers with the K nearest to the target
			sorted := append([]peer.ID{}, all...)
			for i := range sorted {
				for j := i + 1; j < len(sorted); j++ {
					if vfDistLess(target, sorted[j], sorted[i]) {
						sorted[i], sorted[j] = sorted[j], sorted[i]
					}
				}
			}
			for i := 0; i < K && i < len(sorted); i++ {
				ai := &peer.AddrInfo{ID: sorted[i]}
				if vfParam("DIVERSITY") == 1 {
					// every named peer has an address in the same /16: as many as the
					// table-wide limit of the diversity filter admits (K <= 3)
					ai.Addrs = []ma.Multiaddr{vfAddr16(vfIndexOf(all, sorted[i]))}
				}
				out = append(out, ai)
			}
		} else {
			n := vfChoose("answerLen", R+1)
			for i := 0; i < n; i++ {
				out = append(out, &peer.AddrInfo{ID: all[vfChoose("answer", N)]})
			}
		}
		for _, ai := range out {
			answers[p] = append(answers[p], ai.ID)
		}
		return out, nil
	}

	res, err := d.runLookupWithFollowup(ctx, target, queryFn, func(*qpeerset.QueryPeerset) bool { return false })

	vfAssert(inFlight == 0, "lookup/returns-only-after-every-started-query-returned")
	vfAssert(err == nil && res != nil, "lookup/non-empty-seed-table-always-yields-a-result")
	if res == nil {
		return
	}
	// replay the published events: what the search phase learned and who had
	// failed when it ended
	failedAtEnd := map[peer.ID]bool{}
	terminated := false
	nEvents := 0
drain:
	for {
		select {
		case ev, ok := <-evch:
			if !ok {
				break drain
			}
			nEvents++
			if ev.Terminate != nil {
				terminated = true
			}
			if up := ev.Response; up != nil {
				vfAssert(!terminated, "events/no-update-after-termination")
				for _, x := range up.Queried {
					vfAssert(asked[x.Peer] >= 1 && !failedP[x.Peer], "events/queried-peer-was-asked-and-answered")
					for _, h := range up.Heard {
						vfAssert(vfIndexOf(answers[x.Peer], h.Peer) >= 0, "events/heard-peers-were-named-by-that-peer")
					}
				}
				for _, x := range up.Unreachable {
					vfAssert(failedP[x.Peer] || e.host.dialFailed[x.Peer], "events/unreachable-peer-really-failed")
					failedAtEnd[x.Peer] = true
				}
				for _, h := range up.Heard {
					named[h.Peer] = true
				}
			}
			if rq := ev.Request; rq != nil {
				for _, x := range rq.Waiting {
					vfAssert(named[x.Peer], "events/only-learned-peers-are-asked")
				}
			}
		default:
			break drain
		}
	}
	if cancelAt < 0 {
		vfAssert(terminated, "events/termination-is-published")
	}
	failedP = failedAtEnd
	cancel()
	vfWaitIdle()
	vfAssert(vfLiveGoroutines() == 1, "lookup/no-goroutine-left-behind")
	vfAssert(len(res.peers) <= K, "lookup/at-most-K")
	seen := map[peer.ID]bool{}
	for j, p := range res.peers {
		vfAssert(!seen[p], "lookup/distinct")
		seen[p] = true
		vfAssert(p != d.self, "lookup/never-self")
		isSeed := false
		for i := 0; i < nSeeds; i++ {
			if all[i] == p {
				isSeed = true
			}
		}
		vfAssert(isSeed || named[p], "lookup/only-seeds-or-peers-named-in-a-processed-response")
		if cancelAt < 0 {
			vfAssert(!failedP[p], "lookup/no-failed-peer-returned")
			vfAssert(asked[p] >= 1, "lookup/every-returned-peer-was-sent-the-request")
		}
		if j > 0 {
			vfAssert(vfDistLess(target, res.peers[j-1], p), "lookup/strictly-ascending-xor-distance")
		}
	}
	if cancelAt < 0 {
		vfAssert(res.completed, "lookup/uncancelled-lookup-completes")
		// no learned, non-failed peer nearer than a returned one is omitted
		for i, x := range all {
			learned := i < nSeeds || named[x]
			if !learned || failedP[x] || seen[x] || x == d.self {
				continue
			}
			vfAssert(len(res.peers) == K, "lookup/result-full-when-a-learned-peer-is-left-out")
			for _, p := range res.peers {
				vfAssert(vfDistLess(target, p, x), "lookup/no-nearer-learned-non-failed-peer-omitted")
			}
		}
		if honest {
			// complete network: exactly the K globally nearest
			want := K
			if N < K {
				want = N
			}
			vfAssert(len(res.peers) == want, "lookup/complete-network-returns-K-globally-nearest")
			for _, x := range all {
				if !seen[x] {
					for _, p := range res.peers {
						vfAssert(vfDistLess(target, p, x), "lookup/complete-network-returns-K-globally-nearest")
					}
				}
			}
		}
	}
	vfReach("lookup/end")
}

// vfAddr16: /ip4/185.10.0.<i+1>/tcp/4001
func vfAddr16(i int) ma.Multiaddr {
	a, err := ma.NewMultiaddrBytes([]byte{4, 185, 10, 0, byte(i + 1), 6, 0x0f, 0xa1})
	if err != nil {
		panic(err)
	}
	return a
}

//verif:intercept VfGetClosestPeers (*github.com/libp2p/go-libp2p-kad-dht/netsize.Estimator).NetworkSize = vfModelNetworkSize
//verif:intercept VfGetClosestPeers (*github.com/libp2p/go-libp2p-kad-dht/netsize.Estimator).Track = vfModelTrack

// VfGetClosestPeers (C01): the public GetClosestPeers, completed or interrupted
// by the caller at an arbitrary request: no returned peer had failed a dial or a
// request when the search ended, and no peer is returned twice or is the local
// node.
func VfGetClosestPeers() {
	P := vfParam("P")
	vfHashBits(vfParam("W"))
	vfHashFixed()
	e, ids, _ := vfClientEnv(P, P)
	d := e.dht
	ctx, cancel := context.WithCancel(context.Background())
	defer cancel()
	cancelAt := -1
	if vfBool("callerCancels") {
		cancelAt = vfChoose("cancelAtRequest", P)
	}
	failed := map[peer.ID]bool{}
	calls := 0
	e.sender.reply = func(rctx context.Context, p peer.ID, req *pb.Message) (*pb.Message, error) {
		if req.Type != pb.Message_FIND_NODE {
			return nil, errors.New("unexpected request")
		}
		if calls == cancelAt {
			cancel()
		}
		calls++
		if rctx.Err() == nil && vfBool("peer.fails") {
			failed[p] = true // a genuine failure, not one caused by the cancellation
			return nil, errors.New("rpc failed")
		}
		if rctx.Err() != nil {
			return nil, rctx.Err()
		}
		return pb.NewMessage(pb.Message_FIND_NODE, nil, 0), nil
	}
	got, _ := d.GetClosestPeers(ctx, string(vfHashInput("key", nil, 8)))
	vfWaitIdle()
	seen := map[peer.ID]bool{}
	for _, p := range got {
		vfAssert(!failed[p], "closest/no-returned-peer-had-failed-a-request")
		vfAssert(!seen[p] && p != d.self, "closest/distinct-and-never-self")
		seen[p] = true
		vfAssert(vfIndexOf(ids, p) >= 0, "closest/only-learned-peers")
	}
	vfAssert(vfLiveGoroutines() == 1, "closest/no-goroutine-left-behind")
	vfReach("closest/end")
}

var _ = vfRegister("VfGetClosestPeers", VfGetClosestPeers)
var _ = vfRegister("VfQueryPeer", VfQueryPeer)
var _ = vfRegister("VfLookupRun", VfLookupRun)
