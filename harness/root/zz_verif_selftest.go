//go:build verif

package dht

import (
	"net"

	"github.com/libp2p/go-libp2p-kbucket/peerdiversity"
	manet "github.com/multiformats/go-multiaddr/net"
	"github.com/libp2p/go-libp2p/core/peer"
	ma "github.com/multiformats/go-multiaddr"
)

// VfEngineSelfTestNet: library behaviour the harnesses rely on, checked against
// the native run (a disagreement shows up as a non-reproducing counterexample).
func VfEngineSelfTestNet() {
	vfAssert(net.IP{185, 10, 0, 1}.String() == "185.10.0.1", "selftest/ip-string")
	vfAssert(net.IP{185, 10, 0, 1}.Mask(net.IPv4Mask(255, 255, 0, 0)).String() == "185.10.0.0", "selftest/ip-mask-string")
	ip, err := manet.ToIP(vfAddr16(0))
	vfAssert(err == nil && ip != nil, "selftest/toip")
	vfAssert(len(peerdiversity.IPGroupKey(ip)) > 0, "selftest/groupkey-nonempty")
	var in []*peer.AddrInfo
	for i := 0; i < 3; i++ {
		in = append(in, &peer.AddrInfo{ID: peer.ID("p" + string(rune('a'+i))), Addrs: []ma.Multiaddr{vfAddr16(i)}})
	}
	out := filterPeersByIPDiversity(in, 2)
	vfAssert(len(out) == 0, "selftest/three-peers-of-one-group-over-limit-2-are-dropped")
	out = filterPeersByIPDiversity(in, 3)
	vfAssert(len(out) == 3, "selftest/three-peers-at-limit-3-stay")
}

var _ = vfRegister("VfEngineSelfTestNet", VfEngineSelfTestNet)
