//go:build verif

package dht

import (
	"context"
	"strconv"
	"strings"

	"github.com/libp2p/go-libp2p/core/network"
	"github.com/libp2p/go-libp2p/core/peer"
	recpb "github.com/libp2p/go-libp2p-record/pb"
	ma "github.com/multiformats/go-multiaddr"

	pb "github.com/libp2p/go-libp2p-kad-dht/pb"
)

// vfKadLess: dist(key,a) < dist(key,b) in the routing table's metric
// (SHA-256 of the raw key / peer ID).
func vfKadLess(key []byte, a, b peer.ID) bool { return vfDistLess(string(key), a, b) }

// VfCloserPeers (C09-H3): closer-peer lists of FIND_NODE / GET_PROVIDERS.
func VfCloserPeers() {
	N, K := vfParam("N"), vfParam("K")
	vfHashBits(vfParam("W"))
	e := vfNewEnv(K, 3, 1)
	n := 1 + vfChoose("nMembers", N)
	ids := e.vfFillTable(n)
	hasAddr := make([]bool, n+1)
	for i := 0; i < n; i++ {
		if vfBool("hasAddr") {
			e.ps.addrs[ids[i]] = []ma.Multiaddr{vfAddr(10 + i)}
			hasAddr[i] = true
		}
	}
	outsider := vfPeer(n)
	all := append(append([]peer.ID{}, ids...), outsider)
	if vfBool("outsider.hasAddr") {
		e.ps.addrs[outsider] = []ma.Multiaddr{vfAddr(99)}
		hasAddr[n] = true
	}
	from := all[vfChoose("requester", n+1)]
	ctx := context.Background()

	if vfBool("findNode") {
		ti := vfChoose("target", n+1)
		target := all[ti]
		req := pb.NewMessage(pb.Message_FIND_NODE, []byte(target), 0)
		resp, err := e.dht.handleFindPeer(ctx, from, req)
		vfAssert(err == nil && resp != nil, "findnode/answers-valid-request")
		if resp == nil {
			return
		}
		list := resp.CloserPeers
		rest := list
		if hasAddr[ti] {
			vfAssert(len(list) > 0 && peer.ID(list[0].Id) == target, "findnode/target-first-when-its-addresses-are-known")
		}
		if len(list) > 0 && peer.ID(list[0].Id) == target {
			rest = list[1:]
		}
		vfAssert(len(rest) <= K, "findnode/at-most-K-closer-peers")
		for j, p := range rest {
			id := peer.ID(p.Id)
			vfAssert(id != e.dht.self, "findnode/never-self")
			vfAssert(id != from, "findnode/never-the-requester")
			vfAssert(vfIndexOf(ids, id) >= 0, "findnode/only-routing-table-members")
			vfAssert(len(p.Addrs) > 0, "findnode/only-peers-with-addresses")
			if j > 0 {
				vfAssert(vfKadLess(req.Key, peer.ID(rest[j-1].Id), id), "findnode/nearest-first")
			}
		}
		return
	}
	key := vfHashInput("provkey", []byte{0x12, 0x20}, 32)
	req := pb.NewMessage(pb.Message_GET_PROVIDERS, key, 0)
	resp, err := e.dht.handleGetProviders(ctx, from, req)
	vfAssert(err == nil && resp != nil, "getproviders/answers-valid-request")
	if resp == nil {
		return
	}
	vfAssert(len(resp.CloserPeers) <= K, "getproviders/at-most-K-closer-peers")
	for j, p := range resp.CloserPeers {
		id := peer.ID(p.Id)
		vfAssert(id != e.dht.self, "getproviders/never-self")
		vfAssert(id != from, "getproviders/never-the-requester")
		vfAssert(vfIndexOf(ids, id) >= 0, "getproviders/only-routing-table-members")
		if j > 0 {
			vfAssert(vfKadLess(key, peer.ID(resp.CloserPeers[j-1].Id), id), "getproviders/nearest-first")
		}
	}
	vfReach("closer/end")
}

// VfDispatchAndEcho (C09-H4): dispatch by type and enabled subsystems; echoes
// carry no peer records.
func VfDispatchAndEcho() {
	e := vfNewEnv(2, 3, 1)
	t := pb.Message_MessageType(vfI32("type"))
	provOn := vfBool("providersEnabled")
	if !provOn {
		e.dht.providerStore = nil
	}
	// the value subsystem is absent in this harness (valueStore == nil)
	h := e.dht.handlerForMsgType(t)
	known := vfOr(t == pb.Message_FIND_NODE, t == pb.Message_PING)
	provType := vfOr(t == pb.Message_ADD_PROVIDER, t == pb.Message_GET_PROVIDERS)
	want := vfOr(known, vfAnd(provOn, provType))
	vfAssert((h != nil) == want, "dispatch/handler-iff-known-type-of-enabled-subsystem")

	// PING echo strips peer records
	req := pb.NewMessage(pb.Message_PING, []byte("k"), 0)
	req.CloserPeers = []*pb.Message_Peer{{Id: []byte("x")}}
	req.ProviderPeers = []*pb.Message_Peer{{Id: []byte("y")}}
	resp, err := e.dht.handlePing(context.Background(), peer.ID("from"), req)
	vfAssert(err == nil && resp != nil && len(resp.CloserPeers) == 0 && len(resp.ProviderPeers) == 0, "ping/echo-carries-no-peer-records")
	vfReach("dispatch/end")
}

// VfAddProvider (C09-H5): what ADD_PROVIDER stores.
func VfAddProvider() {
	e := vfNewEnv(2, 3, 1)
	sender := peer.ID("sender-peer")
	other := peer.ID("other-peer")
	var keyLen int
	switch vfChoose("keyLen", 5) {
	case 0:
		keyLen = 0
	case 1:
		keyLen = 1
	case 2:
		keyLen = 34
	case 3:
		keyLen = 80
	case 4:
		keyLen = 81
	}
	key := make([]byte, keyLen)
	for i := range key {
		key[i] = byte(i + 1)
	}
	// address filter with an arbitrary verdict per address
	var filterIn, filterOut [][]ma.Multiaddr
	e.dht.addrFilter = func(in []ma.Multiaddr) []ma.Multiaddr {
		var out []ma.Multiaddr
		for _, a := range in {
			if vfBool("filter.keep") {
				out = append(out, a)
			}
		}
		filterIn = append(filterIn, in)
		filterOut = append(filterOut, out)
		return out
	}
	e.provs.addErr = vfBool("store.fails")
	req := pb.NewMessage(pb.Message_ADD_PROVIDER, key, 0)
	R := vfParam("R")
	nrec := vfChoose("nRecords", R+1)
	decodable := make([]int, nrec)
	for r := 0; r < nrec; r++ {
		p := &pb.Message_Peer{}
		if vfBool("rec.fromSender") {
			p.Id = []byte(sender)
		} else {
			p.Id = []byte(other)
		}
		na := vfChoose("rec.nAddrs", 3)
		for a := 0; a < na; a++ {
			if vfBool("rec.addrValid") {
				p.Addrs = append(p.Addrs, vfAddr(20+r*4+a).Bytes())
				decodable[r]++
			} else {
				p.Addrs = append(p.Addrs, []byte{0xff, 0xff, 0xff, 0x7f, 1})
			}
		}
		req.ProviderPeers = append(req.ProviderPeers, p)
	}

	resp, err := e.dht.handleAddProvider(context.Background(), sender, req)

	vfAssert(resp == nil, "addprovider/no-response-message")
	if keyLen == 0 || keyLen > 80 {
		vfAssert(err != nil && len(e.provs.added) == 0, "addprovider/key-must-be-1-to-80-bytes")
	}
	for k, st := range e.provs.added {
		vfAssert(st.prov.ID == sender, "addprovider/stored-provider-is-the-authenticated-sender")
		vfAssert(st.key == string(key), "addprovider/stored-under-the-requested-key")
		// the stored addresses are exactly what the node's filter let through
		vfAssert(k < len(filterOut) && len(st.prov.Addrs) == len(filterOut[k]), "addprovider/stored-addresses-are-the-filtered-ones")
		vfAssert(k < len(filterIn) && len(filterIn[k]) >= 1, "addprovider/stored-record-carried-an-address")
	}
	// a request that is accepted did store a record (C07 relies on this)
	vfAssert((err == nil) == (len(e.provs.added) > 0), "addprovider/accepted-iff-a-record-was-stored")
	// every record from the sender with a decodable address is stored unless the store failed
	wantStored := 0
	for r := 0; r < nrec; r++ {
		if string(req.ProviderPeers[r].Id) == string(sender) && decodable[r] > 0 {
			wantStored++
		}
	}
	if keyLen >= 1 && keyLen <= 80 && !e.provs.addErr {
		vfAssert(len(e.provs.added) == wantStored, "addprovider/every-valid-record-from-the-sender-is-stored")
	}
	vfReach("addprovider/end")
}

// vfMsgPeerSize / vfMessageSize: proto3 wire size written independently of the
// engine's proto model and of protowire.
func vfVarintLen(x uint64) int {
	n := 1
	for s := uint(7); s < 64; s += 7 {
		n += vfIte(x >= uint64(1)<<s, 1, 0)
	}
	return n
}

func vfMsgPeerSize(p *pb.Message_Peer) int {
	size := vfIte(len(p.Id) > 0, 1+vfVarintLen(uint64(len(p.Id)))+len(p.Id), 0)
	for _, a := range p.Addrs {
		size += 1 + vfVarintLen(uint64(len(a))) + len(a)
	}
	size += vfIte(p.Connection != 0, 1+vfVarintLen(uint64(int64(p.Connection))), 0)
	return size
}

func vfMessageSize(m *pb.Message) int {
	size := vfIte(m.Type != 0, 1+vfVarintLen(uint64(int64(m.Type))), 0)
	size += vfIte(m.ClusterLevelRaw != 0, 1+vfVarintLen(uint64(int64(m.ClusterLevelRaw))), 0)
	size += vfIte(len(m.Key) > 0, 1+vfVarintLen(uint64(len(m.Key)))+len(m.Key), 0)
	for _, p := range m.CloserPeers {
		s := vfMsgPeerSize(p)
		size += 1 + vfVarintLen(uint64(s)) + s
	}
	for _, p := range m.ProviderPeers {
		s := vfMsgPeerSize(p)
		size += 1 + vfVarintLen(uint64(s)) + s
	}
	return size
}

// VfProviderBudget (C09-H2): a GET_PROVIDERS response never exceeds the
// transport message limit, whatever the sizes of the provider records.
func VfProviderBudget() {
	R, C := vfParam("R"), vfParam("C")
	resp := pb.NewMessage(pb.Message_GET_PROVIDERS, vfOpaque("key", vfRange("keyLen", 1, 80)), 0)
	resp.ClusterLevelRaw = vfI32("cluster")
	nc := vfChoose("nCloser", C+1)
	for i := 0; i < nc; i++ {
		p := &pb.Message_Peer{Id: vfOpaque("cid", vfRange("cidLen"+strconv.Itoa(i), 0, 64)), Connection: pb.Message_ConnectionType(vfI32("cconn"))}
		p.Addrs = [][]byte{vfOpaque("caddr", vfRange("caddrLen"+strconv.Itoa(i), 0, 8000))}
		resp.CloserPeers = append(resp.CloserPeers, p)
	}
	nr := vfChoose("nProv", R+1)
	recs := make([]*pb.Message_Peer, nr)
	for i := range recs {
		p := &pb.Message_Peer{Id: vfOpaque("pid", vfRange("pidLen"+strconv.Itoa(i), 0, 64)), Connection: pb.Message_ConnectionType(vfI32("pconn"))}
		p.Addrs = [][]byte{vfOpaque("paddr", vfRange("paddrLen"+strconv.Itoa(i), 0, 4194304))}
		recs[i] = p
	}
	vfAssume(vfMessageSize(resp) <= network.MessageSizeMax) // closer peers alone fit (K bounded records)
	appendFittingProviderPeers(resp, func(yield func(*pb.Message_Peer) bool) {
		for _, r := range recs {
			if !yield(r) {
				return
			}
		}
	})
	vfAssert(vfMessageSize(resp) <= network.MessageSizeMax, "getproviders/response-within-transport-limit")
	vfAssert(len(resp.ProviderPeers) <= nr, "getproviders/only-offered-records")
	for i, p := range resp.ProviderPeers {
		vfAssert(p == recs[i], "getproviders/records-kept-in-order")
	}
	vfReach("budget/end")
}

var _ = vfRegister("VfCloserPeers", VfCloserPeers)
var _ = vfRegister("VfDispatchAndEcho", VfDispatchAndEcho)
var _ = vfRegister("VfAddProvider", VfAddProvider)
var _ = vfRegister("VfProviderBudget", VfProviderBudget)

// VfValueHandlers (C05, C09): what PUT_VALUE stores and GET_VALUE serves. An
// optional well-formed earlier put, then a PUT_VALUE of arbitrary shape (message
// key right / empty / another; record missing or keyed right / not at all /
// otherwise; value valid or not, any rank), then a GET_VALUE.
func VfValueHandlers() {
	vfHashBits(vfParam("W"))
	vfHashFixed()
	e, _, _ := vfClientEnv(2, 1)
	d := e.dht
	ctx := context.Background()
	from := peer.ID("sender-peer")
	key := "/vf/thekey"
	keys := []string{key, "", "/vf/other"}
	prevRank := -1
	if vfBool("earlierPut") {
		r0 := vfU8("earlier.rank")
		req := pb.NewMessage(pb.Message_PUT_VALUE, []byte(key), 0)
		req.Record = &recpb.Record{Key: []byte(key), Value: []byte{1, r0}}
		_, err := d.handlePutValue(ctx, from, req)
		vfAssert(err == nil, "putvalue/well-formed-put-into-an-empty-store-is-acknowledged")
		prevRank = int(r0)
	}
	msgKey := keys[vfChoose("put.messageKey", 3)]
	req := pb.NewMessage(pb.Message_PUT_VALUE, []byte(msgKey), 0)
	req.CloserPeers = []*pb.Message_Peer{{Id: []byte("stuffed")}}
	hasRec := vfBool("put.hasRecord")
	recKey := ""
	valid := false
	var rank byte
	if hasRec {
		recKey = keys[vfChoose("put.recordKey", 3)]
		valid = vfBool("put.valueValid")
		rank = vfU8("put.rank")
		req.Record = &recpb.Record{Key: []byte(recKey), Value: []byte{vfIte(valid, byte(1), byte(0)), rank}}
	}
	resp, err := d.handlePutValue(ctx, from, req)
	acked := err == nil
	if acked {
		vfAssert(hasRec && msgKey != "" && recKey == msgKey && valid, "putvalue/acknowledged-only-for-a-valid-record-keyed-like-the-message")
		vfAssert(resp != nil && len(resp.CloserPeers) == 0 && len(resp.ProviderPeers) == 0, "putvalue/echo-carries-no-peer-records")
		if msgKey == key && prevRank >= 0 {
			vfAssert(int(rank) >= prevRank, "putvalue/a-worse-record-is-refused")
		}
	}
	// what GET_VALUE serves for every key involved
	for _, k := range []string{key, "/vf/other"} {
		greq := pb.NewMessage(pb.Message_GET_VALUE, []byte(k), 0)
		gresp, gerr := d.handleGetValue(ctx, from, greq)
		vfAssert(gerr == nil && gresp != nil, "getvalue/no-error")
		if gresp == nil {
			continue
		}
		rec := gresp.GetRecord()
		if rec != nil {
			vfAssert(string(rec.GetKey()) == k, "getvalue/served-record-is-keyed-like-the-request")
			vfAssert(len(rec.GetValue()) == 2 && rec.GetValue()[0] == 1, "getvalue/served-value-passed-the-validator")
		}
		wantRank := -1
		if k == key {
			wantRank = prevRank
		}
		if acked && msgKey == k && int(rank) > wantRank {
			wantRank = int(rank)
		}
		if wantRank >= 0 {
			vfAssert(rec != nil && len(rec.GetValue()) == 2 && int(rec.GetValue()[1]) >= wantRank, "getvalue/an-acknowledged-record-stays-readable-and-is-never-downgraded")
		} else {
			vfAssert(rec == nil, "getvalue/nothing-served-for-a-key-never-stored")
		}
	}
	vfReach("valuehandlers/end")
}

var _ = vfRegister("VfValueHandlers", VfValueHandlers)

// vfAddrLen: the byte length the engine gives to the binary form of a marker
// address (keyed by the raw value of its first component).
var vfAddrLen = map[string]int{}

// vfAddrOfLen returns an address whose binary form has exactly L bytes.
// Natively it is a real /dns address with a name of the right length; in the
// engine it is a small marker address whose Bytes() is an opaque slice of
// (symbolic) length L, see vfModelAddrBytes.
func vfAddrOfLen(tag, L int) ma.Multiaddr {
	if !vfInterpreted() {
		n := L - 3 // code, two length bytes, name (128 <= n < 16384)
		if n < 128 || n >= 16384 {
			panic("vfAddrOfLen: length out of the supported range")
		}
		c, err := ma.NewComponent("dns", strings.Repeat("a", n))
		if err != nil {
			panic(err)
		}
		return ma.Multiaddr{*c}
	}
	a := vfAddr(tag)
	vfAddrLen[string(a[0].RawValue())] = L
	return a
}

func vfModelAddrBytes(m ma.Multiaddr) []byte {
	if len(m) > 0 {
		if L, ok := vfAddrLen[string(m[0].RawValue())]; ok {
			return vfOpaque("addrBytes", L)
		}
	}
	var out []byte
	for _, c := range m {
		out = append(out, c.Bytes()...)
	}
	return out
}

//verif:intercept VfGetProvidersSize (github.com/multiformats/go-multiaddr.Multiaddr).Bytes = vfModelAddrBytes

// VfGetProvidersSize (C09): the response the real GET_PROVIDERS handler builds
// from a full provider store stays within the transport limit. N providers
// share one address whose encoded length is symbolic, the closer peers'
// address lengths are symbolic too, so the solver looks for the sizes at which
// the records, their framing and the rest of the message add up past the limit.
func VfGetProvidersSize() {
	N, C := vfParam("N"), vfParam("C")
	vfHashReal()
	e := vfNewEnv(C, 3, 1)
	ids := e.vfFillTable(C)
	nc := 0
	for i, id := range ids {
		if e.dht.routingTable.Find(id) == "" {
			continue
		}
		nc++
		e.ps.addrs[id] = []ma.Multiaddr{vfAddrOfLen(10+i, vfRange("closerAddrLen"+strconv.Itoa(i), 200, 8200))}
	}
	key := make([]byte, 34)
	key[0], key[1] = 0x12, 0x20
	n := N - vfChoose("fewerProviders", 2)
	// provider records from a few bytes under to a few bytes over the 8 KiB
	// record bound (concrete candidates: N-fold sums of a symbolic length are
	// multiplications the bit-vector solver does not finish)
	provLen := 8192 - 24 + vfChoose("providerAddrLen", 10)
	if vfParam("SYM") == 1 {
		provLen = vfRange("providerAddrLenSym", 8000, 8200)
	}
	provAddr := vfAddrOfLen(99, provLen)
	provs := make([]peer.AddrInfo, n)
	for i := range provs {
		provs[i] = peer.AddrInfo{ID: peer.ID("provider-" + strconv.Itoa(1000+i)), Addrs: []ma.Multiaddr{provAddr}}
	}
	e.provs.have[string(key)] = provs

	req := pb.NewMessage(pb.Message_GET_PROVIDERS, key, 0)
	resp, err := e.dht.handleGetProviders(context.Background(), peer.ID("requester"), req)
	vfAssert(err == nil && resp != nil, "getproviders/answers-valid-request")
	if resp == nil {
		return
	}
	vfAssert(vfMessageSize(resp) <= network.MessageSizeMax, "getproviders/response-within-transport-limit")
	vfAssert(len(resp.CloserPeers) == nc, "getproviders/closer-peers-kept")
	vfAssert(len(resp.ProviderPeers) <= n, "getproviders/only-stored-providers")
	// records are dropped only for lack of room: one more would not have fitted
	if len(resp.ProviderPeers) < n && len(resp.ProviderPeers) > 0 {
		last := vfMsgPeerSize(resp.ProviderPeers[0])
		vfAssert(vfMessageSize(resp)+1+vfVarintLen(uint64(last))+last > network.MessageSizeMax, "getproviders/records-dropped-only-for-lack-of-room")
	}
	vfReach("getproviderssize/end")
}

var _ = vfRegister("VfGetProvidersSize", VfGetProvidersSize)

// VfGetProvidersHandler (C07/C09): GET_PROVIDERS serves every provider the
// store returns for the key, to any requester (also one that is itself a
// provider), with exactly the addresses the node's filter lets through.
func VfGetProvidersHandler() {
	R := vfParam("R")
	vfHashReal()
	e := vfNewEnv(2, 3, 1)
	requester := peer.ID("requester-peer")
	cands := []peer.ID{requester, peer.ID("provider-a"), peer.ID("provider-b"), peer.ID("provider-c")}[:R+1]
	key := make([]byte, 34)
	key[0], key[1] = 0x12, 0x20
	var stored []peer.AddrInfo
	for i, id := range cands {
		if !vfBool("stored") {
			continue
		}
		ai := peer.AddrInfo{ID: id}
		for a := vfChoose("nAddrs", 3); a > 0; a-- {
			ai.Addrs = append(ai.Addrs, vfAddr(30+4*i+a))
		}
		stored = append(stored, ai)
	}
	e.provs.have[string(key)] = stored
	kept := map[string]bool{}
	e.dht.addrFilter = func(in []ma.Multiaddr) []ma.Multiaddr {
		var out []ma.Multiaddr
		for _, a := range in {
			k, seen := kept[a.String()]
			if !seen {
				k = vfBool("filter.keep")
				kept[a.String()] = k
			}
			if k {
				out = append(out, a)
			}
		}
		return out
	}
	req := pb.NewMessage(pb.Message_GET_PROVIDERS, key, 0)
	resp, err := e.dht.handleGetProviders(context.Background(), requester, req)
	vfAssert(err == nil && resp != nil, "getproviders/answers-valid-request")
	if resp == nil {
		return
	}
	vfAssert(len(resp.ProviderPeers) == len(stored), "getproviders/every-stored-provider-is-served-once")
	for i, p := range resp.ProviderPeers {
		if i >= len(stored) {
			break
		}
		vfAssert(peer.ID(p.Id) == stored[i].ID, "getproviders/serves-the-stored-providers")
		want := 0
		for _, a := range stored[i].Addrs {
			if kept[a.String()] {
				want++
			}
		}
		vfAssert(len(p.Addrs) == want, "getproviders/serves-exactly-the-filtered-addresses")
	}
	vfReach("getprovidershandler/end")
}

var _ = vfRegister("VfGetProvidersHandler", VfGetProvidersHandler)
