//go:build verif

package dht

import (
	"context"
	"errors"
	"time"

	ds "github.com/ipfs/go-datastore"
	dssync "github.com/ipfs/go-datastore/sync"
	"github.com/libp2p/go-libp2p/core/network"
	"github.com/libp2p/go-libp2p/core/peer"

	pb "github.com/libp2p/go-libp2p-kad-dht/pb"
	"github.com/libp2p/go-libp2p-kad-dht/qpeerset"
	"github.com/libp2p/go-libp2p-kad-dht/records"
	"github.com/libp2p/go-libp2p-kad-dht/rtrefresh"
)

// VfDHTClose (C14): the real IpfsDHT.Close with every long-lived component the
// literal DHT can start (rtPeerLoop, network subscriber, value-store GC,
// provider manager, refresh manager), racing with an in-flight lookup.
func VfDHTClose() {
	vfSchedBudget(vfParam("SWITCH"))
	vfSchedLIFO(vfBool("scheduleMostRecentlyWokenFirst")) // two deterministic base schedules: FIFO and its adversarial mirror
	vfHashBits(3)
	e := vfNewEnv(2, 2, 1)
	d := e.dht
	bus := &vfBus{}
	e.host.bus = bus
	acc := true
	d.Validator = vfRankValidator{&acc}
	withValues := vfBool("valuesEnabled")
	if withValues {
		d.valueStore = records.NewValueStore(dssync.MutexWrap(ds.NewMapDatastore()), d.Validator, time.Hour)
		d.valueStore.StartGC(d.ctx, 10*time.Minute)
	}
	withProviders := vfBool("providersEnabled")
	if withProviders {
		pm, err := records.NewProviderManager(d.self, e.ps, dssync.MutexWrap(ds.NewMapDatastore()))
		vfAssert(err == nil, "close/setup")
		d.providerStore = pm
	} else {
		d.providerStore = nil
	}
	rm, err := rtrefresh.NewRtRefreshManager(e.host, d.routingTable, vfBool("autoRefresh"),
		func(cpl uint) (string, error) { return "k", nil },
		func(ctx context.Context, key string) error { return nil },
		func(ctx context.Context, p peer.ID) error { return nil },
		time.Minute, time.Hour, time.Minute, d.refreshFinishedCh)
	vfAssert(err == nil, "close/setup")
	d.rtRefreshManager = rm
	rm.Start()
	d.addPeerToRTChan = make(chan peer.ID) // unbuffered, as makeDHT creates it
	d.rtPeerLoop()
	vfAssert(d.startNetworkSubscriber() == nil, "close/setup")

	// an operation in flight: a lookup whose only peer answers slowly or never
	p0 := vfPeer(0)
	e.host.nw.connected[p0] = network.Connected
	d.routingTable.TryAddPeer(p0, true, false)
	hang := vfBool("peerNeverAnswers")
	e.sender.reply = func(ctx context.Context, p peer.ID, req *pb.Message) (*pb.Message, error) {
		vfYield("rpc")
		if hang {
			<-ctx.Done()
			return nil, ctx.Err()
		}
		return pb.NewMessage(req.Type, nil, 0), nil
	}
	// the caller's context has a deadline, or (when the peer does answer) none at all
	opCtx, opCancel := context.WithCancel(context.Background())
	if hang || vfBool("operationHasADeadline") {
		opCtx, opCancel = context.WithTimeout(context.Background(), time.Minute)
	}
	defer opCancel()
	opDone := make(chan error, 1)
	withOp := vfBool("operationInFlight")
	if withOp {
		go func() {
			_, err := d.runLookupWithFollowup(opCtx, vfTargetKey(), d.pmGetClosestPeers("t"), func(*qpeerset.QueryPeerset) bool { return false })
			opDone <- err
		}()
	}
	cerr := d.Close()
	vfAssert(cerr == nil, "close/returns-without-error")
	// long-lived loops have exited when Close returns (not merely been told to)
	vfAssert(len(bus.subs) == 1 && bus.subs[0].closed, "close/returns-only-after-the-subscriber-loop-exited")
	for _, loop := range []string{"rtPeerLoop", "startNetworkSubscriber", "gcLoop", "RtRefreshManager).loop"} {
		vfAssert(vfLiveMatching(loop) == 0, "close/returns-only-after-the-long-lived-loops-exited")
	}
	vfAssert(d.Close() == nil, "close/may-be-called-again")
	if withOp {
		// the interrupted operation finishes or fails by its own timeouts
		vfAdvance(2 * time.Minute)
		select {
		case <-opDone:
		default:
			vfAssert(false, "close/in-flight-operation-finishes-or-fails")
		}
	}
	vfWaitIdle()
	vfAssert(vfLiveGoroutines() == 1, "close/all-started-goroutines-have-exited")
	if len(bus.subs) == 1 {
		vfAssert(bus.subs[0].closed, "close/subscription-closed")
	}
	_ = errors.New
	vfReach("close/end")
}

var _ = vfRegister("VfDHTClose", VfDHTClose)
