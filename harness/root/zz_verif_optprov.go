//go:build verif

package dht

import (
	"context"
	"errors"

	"github.com/libp2p/go-libp2p/core/peer"

	pb "github.com/libp2p/go-libp2p-kad-dht/pb"
)

// VfOptimisticWait (C03-H4): waitForRPCs returns for every number of scheduled
// ADD_PROVIDER RPCs (including none), whatever their outcomes, the return
// threshold and the capacity of the jobs pool; helper goroutines end once the
// outstanding RPCs end; no double close.
func VfOptimisticWait() {
	vfSchedBudget(vfParam("SWITCH"))
	e := vfNewEnv(2, 3, 1)
	d := e.dht
	d.optProvJobsPool = make(chan struct{}, vfChoose("poolCap", 3))
	rt := 1 + vfChoose("returnThreshold", 3)
	r := vfChoose("scheduledRPCs", vfParam("R")+1)
	sent := 0
	e.sender.reply = func(ctx context.Context, p peer.ID, m *pb.Message) (*pb.Message, error) {
		sent++
		vfYield("add-provider-rpc")
		if vfBool("rpcFails") {
			return nil, errors.New("rpc failed")
		}
		return nil, nil
	}
	putCtx, putCancel := context.WithCancel(context.Background())
	defer putCancel()
	if vfBool("putContextAlreadyDone") {
		putCancel() // caller cancelled / DHT closed / put timeout while RPCs are pending
	}
	es := &optimisticState{putCtx: putCtx, dht: d, key: "some-key", doneChan: make(chan struct{}, rt),
		peerStates: map[peer.ID]addProviderRPCState{}, returnThreshold: rt}
	for i := 0; i < r; i++ {
		p := peer.ID("recipient-" + string(rune('a'+i)))
		es.peerStates[p] = scheduled
		go es.putProviderRecord(p)
	}

	es.waitForRPCs() // a feasible path on which this never returns is reported as a deadlock

	vfWaitIdle()
	vfAssert(vfLiveGoroutines() == 1, "optprovide/background-work-ends-once-the-rpcs-end")
	vfAssert(sent == r, "optprovide/one-rpc-per-scheduled-peer")
	for _, s := range es.peerStates {
		vfAssert(s == success || s == failure, "optprovide/every-rpc-outcome-recorded")
	}
	vfAssert(len(d.optProvJobsPool) == 0, "optprovide/all-job-leases-released")
	vfReach("optprovide/end")
}

var _ = vfRegister("VfOptimisticWait", VfOptimisticWait)
