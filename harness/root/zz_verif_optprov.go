//go:build verif

package dht

import (
	"context"
	"errors"
	"time"

	ks "github.com/libp2p/go-libp2p-kbucket/keyspace"
	"github.com/libp2p/go-libp2p/core/peer"
	ma "github.com/multiformats/go-multiaddr"

	"github.com/libp2p/go-libp2p-kad-dht/netsize"
	pb "github.com/libp2p/go-libp2p-kad-dht/pb"
)

// VfOptimisticWait (C03-H4): waitForRPCs returns for every number of scheduled
// ADD_PROVIDER RPCs (including none), whatever their outcomes, the return
// threshold and the capacity of the jobs pool; helper goroutines end once the
// outstanding RPCs end; no double close.
func VfOptimisticWait() {
	vfSchedBudget(vfParam("SWITCH"))
	e := vfNewEnv(2, 3, 1)
	d := e.dht
	d.optProvJobsPool = make(chan struct{}, vfChoose("poolCap", 3))
	rt := 1 + vfChoose("returnThreshold", 3)
	r := vfChoose("scheduledRPCs", vfParam("R")+1)
	sent := 0
	e.sender.reply = func(ctx context.Context, p peer.ID, m *pb.Message) (*pb.Message, error) {
		sent++
		vfYield("add-provider-rpc")
		if vfBool("rpcFails") {
			return nil, errors.New("rpc failed")
		}
		return nil, nil
	}
	putCtx, putCancel := context.WithCancel(context.Background())
	defer putCancel()
	if vfBool("putContextAlreadyDone") {
		putCancel() // caller cancelled / DHT closed / put timeout while RPCs are pending
	}
	es := &optimisticState{putCtx: putCtx, dht: d, key: "some-key", doneChan: make(chan struct{}, rt),
		peerStates: map[peer.ID]addProviderRPCState{}, returnThreshold: rt}
	for i := 0; i < r; i++ {
		p := peer.ID("recipient-" + string(rune('a'+i)))
		es.peerStates[p] = scheduled
		go es.putProviderRecord(p)
	}

	es.waitForRPCs() // a feasible path on which this never returns is reported as a deadlock

	vfWaitIdle()
	vfAssert(vfLiveGoroutines() == 1, "optprovide/background-work-ends-once-the-rpcs-end")
	vfAssert(sent == r, "optprovide/one-rpc-per-scheduled-peer")
	for _, s := range es.peerStates {
		vfAssert(s == success || s == failure, "optprovide/every-rpc-outcome-recorded")
	}
	vfAssert(len(d.optProvJobsPool) == 0, "optprovide/all-job-leases-released")
	vfReach("optprovide/end")
}

var _ = vfRegister("VfOptimisticWait", VfOptimisticWait)

// ---- optimistic Provide end to end (C06, C03) ----
//
// The floating-point size estimate is abstracted to the decisions it induces:
// the network size is known, and whether a peer is "close enough" to be sent
// the record early is an arbitrary verdict per peer (distance 0 or 1 against
// thresholds strictly between).

func vfModelNetworkSize(e *netsize.Estimator) (int32, error) { return 1000, nil }
func vfModelTrack(e *netsize.Estimator, key string, peers []peer.ID) error {
	return nil
}

var vfNear map[peer.ID]bool

func vfModelNormedDistance(p peer.ID, k ks.Key) float64 {
	v, ok := vfNear[p]
	if !ok {
		v = vfBool("peer.veryCloseToTheKey")
		vfNear[p] = v
	}
	if v {
		return 0
	}
	return 1
}
func vfModelGammaIncRegInv(a, y float64) float64 { return 500 } // thresholds = 0.5

//verif:intercept VfOptimisticProvide (*github.com/libp2p/go-libp2p-kad-dht/netsize.Estimator).NetworkSize = vfModelNetworkSize
//verif:intercept VfOptimisticProvide (*github.com/libp2p/go-libp2p-kad-dht/netsize.Estimator).Track = vfModelTrack
//verif:intercept VfOptimisticProvide github.com/libp2p/go-libp2p-kad-dht/netsize.NormedDistance = vfModelNormedDistance
//verif:intercept VfOptimisticProvide gonum.org/v1/gonum/mathext.GammaIncRegInv = vfModelGammaIncRegInv

// VfOptimisticProvide (C06): Provide on the optimistic path reaches every peer
// the lookup returned exactly once with the right content, whether the record
// was sent early or at the end, also when the caller cancels its context after
// Provide returned while slow recipients are still pending.
func VfOptimisticProvide() {
	P := vfParam("P")
	vfHashBits(vfParam("W"))
	vfHashFixed()
	vfNear = map[peer.ID]bool{}
	K := P
	if vfParam("EXTRA") == 1 {
		K = P - 1 // one more peer than the bucket size: the lookup result is the K nearest live peers
	}
	e, ids, _ := vfClientEnv(K, P)
	d := e.dht
	d.enableOptProv = true
	d.optProvJobsPool = make(chan struct{}, 1+vfChoose("jobsPool", 2))
	ctx, cancel := context.WithCancel(context.Background())
	defer cancel()
	c := vfCid("content")
	// two advertised addresses, one of which the address filter removes
	e.host.addrs = []ma.Multiaddr{vfAddr(50), vfAddr(51)}
	d.addrFilter = func(in []ma.Multiaddr) []ma.Multiaddr {
		var out []ma.Multiaddr
		for _, a := range in {
			if !a.Equal(vfAddr(51)) {
				out = append(out, a)
			}
		}
		return out
	}
	slow := map[peer.ID]bool{}
	fails := map[peer.ID]bool{}
	dead := map[peer.ID]bool{}
	var adds []vfSent
	delivered := map[peer.ID]int{}
	e.sender.reply = func(rctx context.Context, p peer.ID, req *pb.Message) (*pb.Message, error) {
		switch req.Type {
		case pb.Message_FIND_NODE:
			if _, ok := dead[p]; !ok {
				dead[p] = vfParam("EXTRA") == 1 && vfBool("peer.isDead")
			}
			if dead[p] {
				return nil, errors.New("rpc failed")
			}
			resp := pb.NewMessage(pb.Message_FIND_NODE, nil, 0)
			if vfParam("EXTRA") == 1 {
				// every live peer knows the whole network
				for _, q := range ids {
					resp.CloserPeers = append(resp.CloserPeers, &pb.Message_Peer{Id: []byte(q), Addrs: [][]byte{vfAddr(60).Bytes()}})
				}
			}
			return resp, nil
		case pb.Message_ADD_PROVIDER:
			adds = append(adds, vfSent{p, req})
			if _, ok := dead[p]; !ok {
				dead[p] = vfParam("EXTRA") == 1 && vfBool("peer.isDead")
			}
			if _, ok := slow[p]; !ok {
				slow[p] = vfBool("recipient.slow")
				fails[p] = dead[p] || (vfParam("EXTRA") == 0 && vfBool("recipient.fails"))
			}
			if slow[p] {
				// a slow but healthy recipient: answers after 2 s unless the request is abandoned
				t := time.NewTimer(2 * time.Second)
				defer t.Stop()
				select {
				case <-t.C:
				case <-rctx.Done():
					return nil, rctx.Err()
				}
			}
			if fails[p] {
				return nil, errors.New("rpc failed")
			}
			delivered[p]++
			return nil, nil
		}
		return nil, errors.New("unexpected request")
	}

	err := d.Provide(ctx, c, true)
	if vfBool("callerCancelsAfterProvideReturned") {
		cancel()
	}
	vfAdvance(5 * time.Second)
	vfWaitIdle()
	vfAssert(err == nil, "optprovide/succeeds-when-the-lookup-succeeds")
	if vfParam("EXTRA") == 1 {
		// One peer more than the bucket size, some of them dead. Which peers the walk
		// learns depends on when it stops, so the oracle is a necessary condition: of
		// the live peers the operation talked to, at least min(K, that many) get the
		// record - a dead early recipient does not use up somebody else's place - and
		// nobody gets it twice.
		talkedTo, got := 0, 0
		for _, p := range ids {
			n := 0
			for _, s := range adds {
				if s.to == p {
					n++
				}
			}
			vfAssert(n <= 1, "optprovide/at-most-one-announcement-per-peer")
			if _, asked := dead[p]; asked && !dead[p] {
				talkedTo++
				if n == 1 {
					got++
				}
			}
		}
		want := K
		if talkedTo < K {
			want = talkedTo
		}
		vfAssert(got >= want, "optprovide/a-dead-recipient-does-not-use-up-the-place-of-a-live-one")
		vfAssert(vfLiveGoroutines() == 1, "optprovide/no-goroutine-left-behind")
		vfReach("optprovide/provide-extra-end")
		return
	}
	for _, p := range ids {
		n := 0
		for _, s := range adds {
			if s.to != p {
				continue
			}
			n++
			pp := s.msg.GetProviderPeers()
			vfAssert(string(s.msg.GetKey()) == string(c.Hash()), "optprovide/announces-the-right-key")
			vfAssert(len(pp) == 1 && peer.ID(pp[0].Id) == d.self && len(pp[0].Addrs) > 0, "optprovide/announcement-names-exactly-the-local-peer-with-addresses")
			if len(pp) == 1 {
				vfAssert(len(pp[0].Addrs) == 1 && string(pp[0].Addrs[0]) == string(vfAddr(50).Bytes()), "optprovide/announcement-carries-exactly-the-filter-passing-addresses")
			}
		}
		vfAssert(n == 1, "optprovide/one-announcement-per-closest-peer")
		if !fails[p] {
			vfAssert(delivered[p] == 1, "optprovide/healthy-recipients-get-the-record-even-if-the-caller-cancels-after-provide-returned")
		}
	}
	vfAssert(len(e.provs.added) == 1 && e.provs.added[0].prov.ID == d.self, "optprovide/records-the-local-node-as-provider")
	vfAssert(vfLiveGoroutines() == 1, "optprovide/no-goroutine-left-behind")
	vfAssert(len(d.optProvJobsPool) == 0, "optprovide/all-job-leases-released")
	vfReach("optprovide/provide-end")
}

var _ = vfRegister("VfOptimisticProvide", VfOptimisticProvide)
