//go:build verif

package dht

import (
	"github.com/libp2p/go-libp2p/core/peer"
	ma "github.com/multiformats/go-multiaddr"
	manet "github.com/multiformats/go-multiaddr/net"
)

func vfMust(a ma.Multiaddr, err error) ma.Multiaddr {
	if err != nil {
		panic(err)
	}
	return a
}

// VfAddressClasses (C15-H2): which addresses count as public for the WAN DHT,
// and that the LAN DHT never keeps loopback addresses. The oracle is a set of
// implications over well-known ranges, independent of manet's tables.
func VfAddressClasses() {
	relay := vfBool("viaRelay")
	var raw []byte
	v6 := vfBool("ipv6")
	var ip []byte
	if v6 {
		ip = vfBytes("ip6", 16)
		raw = append([]byte{41}, ip...)
	} else {
		ip = vfBytes("ip4", 4)
		raw = append([]byte{4}, ip...)
	}
	raw = append(raw, 6, 0x0f, 0xa1) // /tcp/4001
	if relay {
		raw = append(raw, 0xa2, 0x02) // /p2p-circuit
	}
	a := vfMust(ma.NewMultiaddrBytes(raw))

	accepted := PublicQueryFilter(nil, peer.AddrInfo{ID: peer.ID("x"), Addrs: []ma.Multiaddr{a}})
	wanKeeps := len(ma.FilterAddrs([]ma.Multiaddr{a}, manet.IsPublicAddr)) == 1
	lanKeeps := len(ma.FilterAddrs([]ma.Multiaddr{a}, func(x ma.Multiaddr) bool { return !manet.IsIPLoopback(x) })) == 1

	// oracle: implications over well-known ranges
	v4rules := func(b []byte) (private bool, loop bool) {
		p10 := b[0] == 10
		p172 := vfAnd(b[0] == 172, b[1]&0xf0 == 16)
		p192 := vfAnd(b[0] == 192, b[1] == 168)
		cgnat := vfAnd(b[0] == 100, b[1]&0xc0 == 64)
		lp := b[0] == 127
		link := vfAnd(b[0] == 169, b[1] == 254)
		return vfOr(vfOr(vfOr(p10, p172), vfOr(p192, cgnat)), vfOr(lp, link)), lp
	}
	var notPublicForReferral, notPublicForAdvert, loopback bool
	if v6 {
		isLoop := true
		for i := 0; i < 15; i++ {
			isLoop = vfAnd(isLoop, ip[i] == 0)
		}
		isLoop = vfAnd(isLoop, ip[15] == 1)
		mapped := vfAnd(ip[10] == 0xff, ip[11] == 0xff) // ::ffff:a.b.c.d stands for the IPv4 address
		for i := 0; i < 10; i++ {
			mapped = vfAnd(mapped, ip[i] == 0)
		}
		linkLocal := vfAnd(ip[0] == 0xfe, ip[1]&0xc0 == 0x80) // fe80::/10
		uniqueLocal := ip[0]&0xfe == 0xfc                     // fc00::/7
		outsideGlobal := ip[0]&0xe0 != 0x20                   // not in 2000::/3
		m4, _ := v4rules(ip[12:16])
		local := vfOr(vfOr(isLoop, linkLocal), uniqueLocal)
		// referrals: IPv4-mapped addresses are judged as IPv4; everything else must be global unicast
		notPublicForReferral = vfOr(vfAnd(mapped, m4), vfAnd(!mapped, vfOr(local, outsideGlobal)))
		// advertised/learned addresses: loopback, link-local and unique-local are never public
		// (NAT64 64:ff9b::/96 is deliberately treated as public by the address filter)
		notPublicForAdvert = local
		loopback = isLoop
	} else {
		priv, lp := v4rules(ip)
		notPublicForReferral, notPublicForAdvert, loopback = priv, priv, lp
	}
	notPublic := notPublicForAdvert
	vfAssert(vfImplies(vfOr(notPublicForReferral, relay), !accepted), "filters/wan-follows-only-referrals-with-a-public-non-relay-address")
	vfAssert(vfImplies(notPublic, !wanKeeps), "filters/wan-never-keeps-a-non-public-address")
	vfAssert(vfImplies(loopback, !lanKeeps), "filters/lan-never-keeps-a-loopback-address")
	// sanity (not vacuous): an ordinary global address is accepted
	if !v6 && !relay {
		vfAssert(vfImplies(vfAnd(ip[0] == 8, ip[1] == 8), vfAnd(accepted, wanKeeps)), "filters/ordinary-public-address-is-accepted")
	}
	vfAssert(PrivateQueryFilter(nil, peer.AddrInfo{Addrs: []ma.Multiaddr{a}}), "filters/lan-query-filter-accepts-any-peer-with-addresses")
	vfAssert(!PrivateQueryFilter(nil, peer.AddrInfo{}) && !PublicQueryFilter(nil, peer.AddrInfo{}), "filters/no-addresses-no-referral")
	vfReach("filters/end")
}

func vfSymAddr(name string) ma.Multiaddr {
	var raw []byte
	if vfBool(name + ".ipv6") {
		raw = append([]byte{41}, vfBytes(name+".ip6", 16)...)
	} else {
		raw = append([]byte{4}, vfBytes(name+".ip4", 4)...)
	}
	raw = append(raw, 6, 0x0f, 0xa1) // /tcp/4001
	if vfBool(name + ".viaRelay") {
		raw = append(raw, 0xa2, 0x02) // /p2p-circuit
	}
	return vfMust(ma.NewMultiaddrBytes(raw))
}

// VfAddressSets (C15-H2b): a referral with several addresses is followed by
// the WAN DHT exactly when one of its addresses qualifies on its own (public
// AND not via a relay - the same address), for every pair of addresses.
func VfAddressSets() {
	a, b := vfSymAddr("a"), vfSymAddr("b")
	one := func(x ma.Multiaddr) bool {
		return PublicQueryFilter(nil, peer.AddrInfo{ID: peer.ID("x"), Addrs: []ma.Multiaddr{x}})
	}
	both := PublicQueryFilter(nil, peer.AddrInfo{ID: peer.ID("x"), Addrs: []ma.Multiaddr{a, b}})
	vfAssert(both == vfOr(one(a), one(b)), "filters/wan-follows-a-referral-iff-one-address-is-public-and-not-relayed")
	rev := PublicQueryFilter(nil, peer.AddrInfo{ID: peer.ID("x"), Addrs: []ma.Multiaddr{b, a}})
	vfAssert(both == rev, "filters/address-order-does-not-matter")
	wan := ma.FilterAddrs([]ma.Multiaddr{a, b}, manet.IsPublicAddr)
	na := len(ma.FilterAddrs([]ma.Multiaddr{a}, manet.IsPublicAddr))
	nb := len(ma.FilterAddrs([]ma.Multiaddr{b}, manet.IsPublicAddr))
	vfAssert(len(wan) == na+nb, "filters/wan-address-filter-judges-each-address-on-its-own")
	vfReach("filters/sets-end")
}

var _ = vfRegister("VfAddressClasses", VfAddressClasses)
var _ = vfRegister("VfAddressSets", VfAddressSets)
