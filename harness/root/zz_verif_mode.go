//go:build verif

package dht

import (
	"context"
	"io"
	"time"

	"github.com/libp2p/go-libp2p/core/event"
	"github.com/libp2p/go-libp2p/core/network"
	"github.com/libp2p/go-libp2p/core/peer"
	"github.com/libp2p/go-libp2p/core/protocol"
	"github.com/libp2p/go-msgio"
	"google.golang.org/protobuf/proto"

	pb "github.com/libp2p/go-libp2p-kad-dht/pb"
)

// ---- fake event bus ----

type vfBus struct {
	event.Bus
	subs []*vfSub
}

type vfSub struct {
	out          chan any
	reachability bool
	closed       bool
}

func (s *vfSub) Out() <-chan any { return s.out }
func (s *vfSub) Close() error {
	s.closed = true
	return nil
}
func (s *vfSub) Name() string { return "vf" }

func (b *vfBus) Subscribe(evts any, _ ...event.SubscriptionOpt) (event.Subscription, error) {
	s := &vfSub{out: make(chan any, 16)}
	for _, e := range evts.([]any) {
		if _, ok := e.(*event.EvtLocalReachabilityChanged); ok {
			s.reachability = true
		}
	}
	b.subs = append(b.subs, s)
	return s, nil
}

func (h *vfHost) EventBus() event.Bus { return h.bus }

// ---- fake connections and streams ----

type vfConn struct {
	network.Conn
	remote  peer.ID
	streams []network.Stream
	dir     network.Direction
}

func (c *vfConn) Stat() network.ConnStats {
	return network.ConnStats{Stats: network.Stats{Direction: c.dir}}
}

func (c *vfConn) RemotePeer() peer.ID          { return c.remote }
func (c *vfConn) GetStreams() []network.Stream { return c.streams }

type vfStream struct {
	network.Stream
	conn    *vfConn
	proto   protocol.ID
	dir     network.Direction
	in      []byte // bytes the remote sent
	rpos    int
	reads   int
	out     []byte // bytes written to the remote
	resets  int
	closes  int
	onRead  func()
}

func (s *vfStream) Protocol() protocol.ID { return s.proto }
func (s *vfStream) Stat() network.Stats   { return network.Stats{Direction: s.dir} }
func (s *vfStream) Conn() network.Conn    { return s.conn }
func (s *vfStream) Reset() error          { s.resets++; return nil }
func (s *vfStream) Close() error          { s.closes++; return nil }
func (s *vfStream) Read(p []byte) (int, error) {
	s.reads++
	if s.onRead != nil {
		s.onRead()
	}
	if s.rpos >= len(s.in) {
		return 0, io.EOF
	}
	n := copy(p, s.in[s.rpos:])
	s.rpos += n
	return n, nil
}
func (s *vfStream) Write(p []byte) (int, error) {
	s.out = append(s.out, p...)
	return len(p), nil
}
func (s *vfStream) SetDeadline(time.Time) error      { return nil }
func (s *vfStream) SetReadDeadline(time.Time) error  { return nil }
func (s *vfStream) SetWriteDeadline(time.Time) error { return nil }

func vfFrame(m *pb.Message) []byte {
	b, err := proto.Marshal(m)
	if err != nil {
		panic(err)
	}
	var out []byte
	n := uint64(len(b))
	for n >= 0x80 {
		out = append(out, byte(n)|0x80)
		n >>= 7
	}
	out = append(out, byte(n))
	return append(out, b...)
}

// VfModeSwitch (C13): mode after any sequence of reachability events; what a
// demotion resets; fixed modes never change.
func VfModeSwitch() {
	K := vfParam("K")
	e := vfNewEnv(2, 3, 1)
	d := e.dht
	bus := &vfBus{}
	e.host.bus = bus
	auto := ModeOpt(vfChoose("auto", 4))
	d.auto = auto
	// initial mode as New sets it (dht.go): Auto/Client start as client
	d.mode = modeClient
	if auto == ModeAutoServer || auto == ModeServer {
		d.mode = modeClient
		_ = d.setMode(modeServer)
	}
	serverProto := d.serverProtocols[0]
	conn := &vfConn{remote: peer.ID("remote"), dir: network.DirInbound}
	if vfBool("conn.outbound") {
		conn.dir = network.DirOutbound // the direction of the connection is independent of its streams'
	}
	S := vfParam("S")
	streams := make([]*vfStream, S)
	for i := range streams {
		st := &vfStream{conn: conn, proto: serverProto, dir: network.DirInbound}
		if vfBool("stream.otherProtocol") {
			st.proto = "/other/1.0.0"
		}
		if vfBool("stream.outbound") {
			st.dir = network.DirOutbound
		}
		streams[i] = st
		conn.streams = append(conn.streams, st)
	}
	e.host.nw.conns = []network.Conn{conn}
	err := d.startNetworkSubscriber()
	vfAssert(err == nil && len(bus.subs) == 1, "mode/subscribes-once")
	sub := bus.subs[0]
	vfAssert(sub.reachability == (auto == ModeAuto || auto == ModeAutoServer), "mode/only-automatic-modes-listen-to-reachability")

	want := d.getMode()
	for k := 0; k < K; k++ {
		r := network.Reachability(vfChoose("reachability", 3))
		if !sub.reachability {
			break // a faithful bus never delivers an event that was not subscribed to
		}
		sub.out <- event.EvtLocalReachabilityChanged{Reachability: r}
		vfWaitIdle()
		prev := want
		switch r {
		case network.ReachabilityPublic:
			want = modeServer
		case network.ReachabilityPrivate:
			want = modeClient
		case network.ReachabilityUnknown:
			if auto == ModeAutoServer {
				want = modeServer
			} else {
				want = modeClient
			}
		}
		vfAssert(d.getMode() == want, "mode/determined-by-the-last-reachability-event")
		vfAssert(e.host.handlers[serverProto] == (want == modeServer), "mode/handlers-registered-iff-server")
		if prev == modeServer && want == modeClient {
			for _, st := range streams {
				if st.proto == serverProto && st.dir == network.DirInbound {
					vfAssert(st.resets > 0, "mode/demotion-resets-open-inbound-dht-streams")
				}
			}
		}
		for _, st := range streams {
			if st.proto != serverProto || st.dir != network.DirInbound {
				vfAssert(st.resets == 0, "mode/other-streams-are-never-reset")
			}
		}
	}
	if auto == ModeClient {
		vfAssert(d.getMode() == modeClient && !e.host.handlers[serverProto], "mode/fixed-client-never-serves")
	}
	if auto == ModeServer {
		vfAssert(d.getMode() == modeServer && e.host.handlers[serverProto], "mode/fixed-server-stays-server")
	}
	e.cancel()
	d.wg.Wait()
	vfAssert(sub.closed, "mode/subscription-closed-on-shutdown")
	vfReach("mode/end")
}

// VfModeGate (C13/C09): a client-mode node handles nothing; the mode is
// re-checked before each message on an open stream.
func VfModeGate() {
	e := vfNewEnv(2, 3, 1)
	d := e.dht
	conn := &vfConn{remote: peer.ID("remote")}
	st := &vfStream{conn: conn, proto: d.serverProtocols[0], dir: network.DirInbound}
	ping := pb.NewMessage(pb.Message_PING, nil, 0)
	st.in = append(vfFrame(ping), vfFrame(ping)...)
	startClient := vfBool("startInClientMode")
	flip := vfBool("flipToClientDuringFirstRequest")
	if startClient {
		d.mode = modeClient
	}
	handled := 0
	d.onRequestHook = func(context.Context, network.Stream, *pb.Message) {
		handled++
		if flip && handled == 1 {
			_ = d.setMode(modeClient)
		}
	}
	ok := d.handleNewMessage(st)
	// count the responses on the wire
	responses := 0
	r := msgio.NewVarintReaderSize(&vfStream{in: st.out}, network.MessageSizeMax)
	for {
		if _, err := r.ReadMsg(); err != nil {
			break
		}
		responses++
	}
	switch {
	case startClient:
		vfAssert(!ok && handled == 0 && responses == 0 && st.reads == 0, "gate/client-mode-answers-nothing")
	case flip:
		vfAssert(!ok && handled == 1 && responses == 1, "gate/mode-rechecked-before-each-message")
	default:
		vfAssert(ok && handled == 2 && responses == 2, "gate/server-mode-answers-every-request")
	}
	vfReach("gate/end")
}

// VfModeEventRace (C13): a mode switch (as the subscriber loop performs it on
// a reachability event) races with an inbound request's per-message mode
// check, under every interleaving within the context-switch budget: the
// switch is never lost.
func VfModeEventRace() {
	vfSchedBudget(vfParam("SWITCH"))
	vfSchedLIFO(vfBool("scheduleMostRecentlyWokenFirst"))
	e := vfNewEnv(2, 3, 1)
	d := e.dht
	target := modeClient
	if vfBool("startInClientMode") {
		d.mode = modeClient
		target = modeServer
	} else {
		for _, p := range d.serverProtocols {
			e.host.handlers[p] = true
		}
	}
	conn := &vfConn{remote: peer.ID("remote")}
	st := &vfStream{conn: conn, proto: d.serverProtocols[0], dir: network.DirInbound}
	ping := pb.NewMessage(pb.Message_PING, nil, 0)
	st.in = append(vfFrame(ping), vfFrame(ping)...)
	done := make(chan struct{}, 2)
	var serr error
	go func() {
		d.handleNewMessage(st)
		done <- struct{}{}
	}()
	go func() {
		serr = d.setMode(target)
		done <- struct{}{}
	}()
	<-done
	<-done
	vfAssert(serr == nil, "mode/switch-succeeds")
	vfAssert(d.getMode() == target, "mode/a-switch-is-never-lost-to-a-concurrent-request")
	for _, p := range d.serverProtocols {
		vfAssert(e.host.handlers[p] == (target == modeServer), "mode/handlers-registered-iff-server")
	}
	vfReach("moderace/end")
}

var _ = vfRegister("VfModeEventRace", VfModeEventRace)
var _ = vfRegister("VfModeSwitch", VfModeSwitch)
var _ = vfRegister("VfModeGate", VfModeGate)
