//go:build verif

package dht

import (
	"context"
	"errors"
	"time"

	ci "github.com/libp2p/go-libp2p/core/crypto"
	"github.com/libp2p/go-libp2p/core/host"
	"github.com/libp2p/go-libp2p/core/network"
	"github.com/libp2p/go-libp2p/core/peer"
	"github.com/libp2p/go-libp2p/core/peerstore"
	"github.com/libp2p/go-libp2p/core/protocol"
	ma "github.com/multiformats/go-multiaddr"

	kb "github.com/libp2p/go-libp2p-kbucket"

	pb "github.com/libp2p/go-libp2p-kad-dht/pb"
)

// ---- harness fakes at the libp2p interface boundary (documented contracts only) ----

type vfHost struct {
	host.Host // unimplemented methods are nil: reaching one is a harness gap
	id         peer.ID
	ps         *vfPeerstore
	nw         *vfNetwork
	addrs      []ma.Multiaddr
	handlers   map[protocol.ID]bool
	connectErr map[peer.ID]bool
	connectSlowOnce map[peer.ID]bool
	dialFailed map[peer.ID]bool // peers whose (slow) dial ended in an error
	dialed     []peer.ID
	bus        *vfBus
}

func (h *vfHost) ID() peer.ID                     { return h.id }
func (h *vfHost) Peerstore() peerstore.Peerstore  { return h.ps }
func (h *vfHost) Addrs() []ma.Multiaddr           { return h.addrs }
func (h *vfHost) Network() network.Network        { return h.nw }
func (h *vfHost) SetStreamHandler(p protocol.ID, _ network.StreamHandler) {
	h.handlers[p] = true
}
func (h *vfHost) RemoveStreamHandler(p protocol.ID) { delete(h.handlers, p) }
func (h *vfHost) Connect(ctx context.Context, pi peer.AddrInfo) error {
	h.dialed = append(h.dialed, pi.ID)
	if ctx.Err() != nil {
		return ctx.Err()
	}
	if h.connectErr[pi.ID] {
		return errors.New("dial failed")
	}
	if h.connectSlowOnce[pi.ID] {
		// the first dial of this peer hangs until its context ends (or a minute passes)
		delete(h.connectSlowOnce, pi.ID)
		if h.dialFailed == nil {
			h.dialFailed = map[peer.ID]bool{}
		}
		h.dialFailed[pi.ID] = true
		select {
		case <-ctx.Done():
			return ctx.Err()
		case <-time.After(time.Minute):
			return errors.New("dial timed out")
		}
	}
	h.nw.connected[pi.ID] = network.Connected
	return nil
}

type vfNetwork struct {
	network.Network
	connected map[peer.ID]network.Connectedness
	conns     []network.Conn
}

func (n *vfNetwork) Connectedness(p peer.ID) network.Connectedness { return n.connected[p] }
func (n *vfNetwork) Conns() []network.Conn                          { return n.conns }
func (n *vfNetwork) ConnsToPeer(p peer.ID) []network.Conn {
	var out []network.Conn
	for _, c := range n.conns {
		if c.RemotePeer() == p {
			out = append(out, c)
		}
	}
	return out
}

type vfPeerstore struct {
	peerstore.Peerstore
	addrs     map[peer.ID][]ma.Multiaddr
	protos    map[peer.ID][]protocol.ID
	protoErr  map[peer.ID]bool
	addLog    []peer.AddrInfo
}

func (ps *vfPeerstore) PeerInfo(p peer.ID) peer.AddrInfo {
	return peer.AddrInfo{ID: p, Addrs: ps.addrs[p]}
}
func (ps *vfPeerstore) Addrs(p peer.ID) []ma.Multiaddr { return ps.addrs[p] }
func (ps *vfPeerstore) AddAddrs(p peer.ID, addrs []ma.Multiaddr, ttl time.Duration) {
	ps.addLog = append(ps.addLog, peer.AddrInfo{ID: p, Addrs: addrs})
	ps.addrs[p] = append(ps.addrs[p], addrs...)
}
func (ps *vfPeerstore) AddAddr(p peer.ID, a ma.Multiaddr, ttl time.Duration) {
	ps.AddAddrs(p, []ma.Multiaddr{a}, ttl)
}
func (ps *vfPeerstore) PubKey(peer.ID) ci.PubKey             { return nil }
func (ps *vfPeerstore) LatencyEWMA(peer.ID) time.Duration   { return 0 }
func (ps *vfPeerstore) RecordLatency(peer.ID, time.Duration) {}
func (ps *vfPeerstore) RemovePeer(peer.ID)                   {}
func (ps *vfPeerstore) GetProtocols(p peer.ID) ([]protocol.ID, error) {
	if ps.protoErr[p] {
		return nil, errors.New("peerstore failure")
	}
	return ps.protos[p], nil
}
func (ps *vfPeerstore) SupportsProtocols(p peer.ID, want ...protocol.ID) ([]protocol.ID, error) {
	if ps.protoErr[p] {
		return nil, errors.New("peerstore failure")
	}
	var out []protocol.ID
	for _, w := range want {
		for _, h := range ps.protos[p] {
			if w == h {
				out = append(out, w)
			}
		}
	}
	return out, nil
}
func (ps *vfPeerstore) FirstSupportedProtocol(p peer.ID, want ...protocol.ID) (protocol.ID, error) {
	got, err := ps.SupportsProtocols(p, want...)
	if err != nil || len(got) == 0 {
		return "", err
	}
	return got[0], nil
}

// vfSender is a scripted pb.MessageSender: reply decides the answer per request.
type vfSender struct {
	reply    func(ctx context.Context, p peer.ID, req *pb.Message) (*pb.Message, error)
	requests []vfSent
}

type vfSent struct {
	to  peer.ID
	msg *pb.Message
}

func (s *vfSender) SendRequest(ctx context.Context, p peer.ID, m *pb.Message) (*pb.Message, error) {
	s.requests = append(s.requests, vfSent{p, m})
	return s.reply(ctx, p, m)
}
func (s *vfSender) SendMessage(ctx context.Context, p peer.ID, m *pb.Message) error {
	s.requests = append(s.requests, vfSent{p, m})
	_, err := s.reply(ctx, p, m)
	return err
}
func (s *vfSender) OnDisconnect(context.Context, peer.ID) {}

type vfProvStore struct {
	added  []vfProvAdd
	have   map[string][]peer.AddrInfo
	addErr bool
	getErr bool
}

type vfProvAdd struct {
	key  string
	prov peer.AddrInfo
}

func (s *vfProvStore) AddProvider(ctx context.Context, key []byte, prov peer.AddrInfo) error {
	if s.addErr {
		return errors.New("provider store failure")
	}
	s.added = append(s.added, vfProvAdd{string(key), prov})
	return nil
}
func (s *vfProvStore) GetProviders(ctx context.Context, key []byte) ([]peer.AddrInfo, error) {
	if s.getErr {
		return nil, errors.New("provider store failure")
	}
	return s.have[string(key)], nil
}
func (s *vfProvStore) Close() error { return nil }

type vfEnv struct {
	dht    *IpfsDHT
	host   *vfHost
	ps     *vfPeerstore
	sender *vfSender
	provs  *vfProvStore
	cancel context.CancelFunc
}

func vfAddr(i int) ma.Multiaddr {
	a, err := ma.NewMultiaddrBytes([]byte{4, 10, 0, byte(i >> 8), byte(i), 6, 0x0f, 0xa1})
	if err != nil {
		panic(err)
	}
	return a
}

// vfNewEnv builds an IpfsDHT around the fakes, with a real routing table.
func vfNewEnv(K, alpha, beta int) *vfEnv {
	self := peer.ID(vfHashInput("self", nil, 8))
	ps := &vfPeerstore{addrs: map[peer.ID][]ma.Multiaddr{}, protos: map[peer.ID][]protocol.ID{}, protoErr: map[peer.ID]bool{}}
	nw := &vfNetwork{connected: map[peer.ID]network.Connectedness{}}
	h := &vfHost{id: self, ps: ps, nw: nw, handlers: map[protocol.ID]bool{}, connectErr: map[peer.ID]bool{}, addrs: []ma.Multiaddr{vfAddr(1)}}
	snd := &vfSender{reply: func(context.Context, peer.ID, *pb.Message) (*pb.Message, error) {
		return nil, errors.New("no script")
	}}
	pm, _ := pb.NewProtocolMessenger(snd)
	ctx, cancel := context.WithCancel(context.Background())
	d := &IpfsDHT{
		host: h, self: self, selfKey: kb.ConvertPeerID(self), peerstore: ps,
		ctx: ctx, cancel: cancel, protoMessenger: pm, msgSender: snd,
		protocols: []protocol.ID{"/vf/kad/1.0.0"}, serverProtocols: []protocol.ID{"/vf/kad/1.0.0"},
		auto: ModeAuto, mode: modeServer, bucketSize: K, alpha: alpha, beta: beta,
		queryPeerFilter:        func(any, peer.AddrInfo) bool { return true },
		routingTablePeerFilter: func(any, peer.ID) bool { return true },
		lookupCheckTimeout:     10 * time.Second, lookupCheckCapacity: 4,
		fixLowPeersChan: make(chan struct{}, 1), addPeerToRTChan: make(chan peer.ID, 16), refreshFinishedCh: make(chan struct{}, 1),
	}
	rt, err := kb.NewRoutingTable(K, d.selfKey, time.Minute, ps, time.Hour, nil)
	if err != nil {
		panic(err)
	}
	d.routingTable = rt
	provs := &vfProvStore{have: map[string][]peer.AddrInfo{}}
	d.providerStore = provs
	return &vfEnv{dht: d, host: h, ps: ps, sender: snd, provs: provs, cancel: cancel}
}

// vfFillTable admits n harness peers to the routing table.
func (e *vfEnv) vfFillTable(n int) []peer.ID {
	ids := make([]peer.ID, n)
	for i := range ids {
		ids[i] = vfPeer(i)
		e.dht.routingTable.TryAddPeer(ids[i], true, false)
	}
	return ids
}

func (e *vfEnv) drainAdded() []peer.ID {
	var out []peer.ID
	for {
		select {
		case p := <-e.dht.addPeerToRTChan:
			out = append(out, p)
		default:
			return out
		}
	}
}
