//go:build verif

package dual

import (
	"context"
	"errors"
	"time"

	"github.com/ipfs/go-cid"
	dht "github.com/libp2p/go-libp2p-kad-dht"
	ddual "github.com/libp2p/go-libp2p-kad-dht/dual"
	pb "github.com/libp2p/go-libp2p-kad-dht/pb"
	"github.com/libp2p/go-libp2p/core/connmgr"
	"github.com/libp2p/go-libp2p/core/host"
	"github.com/libp2p/go-libp2p/core/peer"
	"github.com/libp2p/go-libp2p/core/peerstore"
	ma "github.com/multiformats/go-multiaddr"
	mh "github.com/multiformats/go-multihash"
)

// the dual sweeping provider wrapper over two modelled DHTs (C14).

type vfPHost struct {
	host.Host
	id peer.ID
	ps *vfPPstore
	cm connmgr.NullConnMgr
}

type vfPPstore struct{ peerstore.Peerstore }

func (*vfPPstore) Addrs(peer.ID) []ma.Multiaddr                      { return nil }
func (*vfPPstore) SetAddrs(peer.ID, []ma.Multiaddr, time.Duration)   {}
func (*vfPPstore) UpdateAddrs(peer.ID, time.Duration, time.Duration) {}
func (*vfPPstore) ClearAddrs(peer.ID)                                {}
func (h *vfPHost) ID() peer.ID                                       { return h.id }
func (h *vfPHost) Peerstore() peerstore.Peerstore                    { return h.ps }
func (h *vfPHost) ConnManager() connmgr.ConnManager                  { return h.cm }

type vfPSender struct{ sent int }

func (s *vfPSender) SendRequest(context.Context, peer.ID, *pb.Message) (*pb.Message, error) {
	return nil, errors.New("unused")
}
func (s *vfPSender) SendMessage(context.Context, peer.ID, *pb.Message) error {
	s.sent++
	return nil
}

var (
	vfTheHost   *vfPHost
	vfTheSender *vfPSender
	vfPeers     []peer.ID
)

func vfModelHost(d *dht.IpfsDHT) host.Host { return vfTheHost }
func vfModelBucketSize(d *dht.IpfsDHT) int { return 2 }
func vfModelFilteredAddrs(d *dht.IpfsDHT) []ma.Multiaddr {
	a, err := ma.NewMultiaddrBytes([]byte{4, 20, 0, 0, 1, 6, 0x0f, 0xa1})
	if err != nil {
		panic(err)
	}
	return []ma.Multiaddr{a}
}
func vfModelGetClosestPeers(d *dht.IpfsDHT, ctx context.Context, key string) ([]peer.ID, error) {
	if err := ctx.Err(); err != nil {
		return nil, err
	}
	return vfPeers, nil
}
func vfModelProvide(d *dht.IpfsDHT, ctx context.Context, c cid.Cid, b bool) error { return nil }
func vfModelMessageSender(d *dht.IpfsDHT) pb.MessageSender                        { return vfTheSender }

//verif:intercept * (*github.com/libp2p/go-libp2p-kad-dht.IpfsDHT).Host = vfModelHost
//verif:intercept * (*github.com/libp2p/go-libp2p-kad-dht.IpfsDHT).BucketSize = vfModelBucketSize
//verif:intercept * (*github.com/libp2p/go-libp2p-kad-dht.IpfsDHT).FilteredAddrs = vfModelFilteredAddrs
//verif:intercept * (*github.com/libp2p/go-libp2p-kad-dht.IpfsDHT).GetClosestPeers = vfModelGetClosestPeers
//verif:intercept * (*github.com/libp2p/go-libp2p-kad-dht.IpfsDHT).Provide = vfModelProvide
//verif:intercept * (*github.com/libp2p/go-libp2p-kad-dht.IpfsDHT).MessageSender = vfModelMessageSender

// VfDualProviderNew (C14): the dual wrapper's constructor with a fault in the
// LAN or in the WAN provider leaves nothing running; a successful one is
// closed cleanly, also with an operation just issued.
func VfDualProviderNew() {
	vfHashReal()
	self, err := peer.Decode("12BoooooPEER")
	vfAssert(err == nil, "dualprov/setup")
	vfTheHost = &vfPHost{id: self, ps: &vfPPstore{}}
	vfTheSender = &vfPSender{}
	vfPeers = []peer.ID{peer.ID("peer-a"), peer.ID("peer-b")}
	d := &ddual.DHT{LAN: &dht.IpfsDHT{}, WAN: &dht.IpfsDHT{}}
	var opts []Option
	fault := vfChoose("fault", 3)
	switch fault {
	case 1: // the LAN provider (built first) is rejected
		opts = append(opts, WithConnectivityCheckOnlineIntervalLAN(0))
	case 2: // the WAN provider (built second) is rejected
		opts = append(opts, WithConnectivityCheckOnlineIntervalWAN(0))
	}
	p, perr := New(d, opts...)
	if fault != 0 {
		vfAssert(perr != nil && p == nil, "dualprov/faulty-construction-is-an-error")
		vfWaitIdle()
		vfAssert(vfLiveGoroutines() == 1, "dualprov/failed-constructor-leaves-no-goroutine")
		vfReach("dualprov/new-failed-end")
		return
	}
	vfAssert(perr == nil && p != nil, "dualprov/constructor")
	vfWaitIdle()
	if vfBool("operationInFlight") {
		k := mh.Multihash(append([]byte{0x12, 0x20}, make([]byte, 32)...))
		_ = p.StartProviding(false, k)
	} else {
		vfWaitIdle()
	}
	vfAssert(p.Close() == nil, "dualprov/close")
	vfWaitIdle()
	vfAssert(vfLiveGoroutines() == 1, "dualprov/close-leaves-no-goroutine")
	vfReach("dualprov/end")
}

var _ = vfRegister("VfDualProviderNew", VfDualProviderNew)
