//go:build verif

package provider

import "sync"

// VfEngineSelfTest: scheduler/channel semantics the provider harness relies on.
func VfEngineSelfTest() {
	done := make(chan struct{})
	for round := 0; round < 3; round++ {
		nWorkers := 2
		jobs := make(chan int, nWorkers)
		got := 0
		var wg sync.WaitGroup
		wg.Add(nWorkers)
		for w := 0; w < nWorkers; w++ {
			go func() {
				defer wg.Done()
				for j := range jobs {
					got += j
				}
			}()
		}
		n := 3 + round
	loop:
		for j := 0; j < n; j++ {
			select {
			case jobs <- 1:
			case <-done:
				break loop
			}
		}
		close(jobs)
		wg.Wait()
		vfAssert(got == n, "selftest/every-job-sent-before-close-is-received")
	}
	vfReach("selftest/end")
}

var _ = vfRegister("VfEngineSelfTest", VfEngineSelfTest)
