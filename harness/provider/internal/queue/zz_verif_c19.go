//go:build verif

package queue

import (
	"context"
	"strconv"

	ds "github.com/ipfs/go-datastore"
	"github.com/ipfs/go-datastore/query"
	dssync "github.com/ipfs/go-datastore/sync"
	"github.com/ipfs/go-libdht/kad/trie"

	"github.com/ipfs/go-libdht/kad/key"
	"github.com/ipfs/go-libdht/kad/key/bitstr"
	mh "github.com/multiformats/go-multihash"

	"github.com/libp2p/go-libp2p-kad-dht/provider/internal/keyspace"
)

// vfMh returns the i-th harness multihash (sha2-256 shaped). Its kademlia
// identifier (SHA-256 of these bytes) is arbitrary under the engine.
func vfMh(i int) mh.Multihash {
	return mh.Multihash(vfHashInput("mh"+strconv.Itoa(i), []byte{0x12, 0x20}, 32))
}

// vfKadPrefix returns the first l bits of the kademlia identifier of h.
func vfKadPrefix(h mh.Multihash, l int) bitstr.Key {
	return bitstr.Key(key.BitString(keyspace.MhToBit256(h))[:l])
}

func vfIsPrefix(p bitstr.Key, h mh.Multihash) bool {
	return keyspace.IsPrefix(p, keyspace.MhToBit256(h))
}

func vfQueuePrefixes(q *prefixQueue) []bitstr.Key {
	out := make([]bitstr.Key, 0, q.queue.Len())
	for i := 0; i < q.queue.Len(); i++ {
		out = append(out, q.queue.At(i))
	}
	return out
}

// vfPushModel is the reference for prefixQueue.Push taken from the property
// statement: no-op if covered by an equal or shorter prefix; otherwise a
// shorter prefix absorbs the longer ones at the position of the first.
func vfPushModel(list []bitstr.Key, p bitstr.Key) []bitstr.Key {
	first := -1
	for i, e := range list {
		if keyspace.IsBitstrPrefix(p, e) {
			first = i
			break
		}
	}
	if first >= 0 {
		out := make([]bitstr.Key, 0, len(list))
		for i, e := range list {
			if i == first {
				out = append(out, p)
			} else if !keyspace.IsBitstrPrefix(p, e) {
				out = append(out, e)
			}
		}
		return out
	}
	for _, e := range list {
		if keyspace.IsBitstrPrefix(e, p) {
			return list
		}
	}
	return append(append([]bitstr.Key{}, list...), p)
}

func vfSameList(a, b []bitstr.Key) bool {
	if len(a) != len(b) {
		return false
	}
	for i := range a {
		if a[i] != b[i] {
			return false
		}
	}
	return true
}

// vfIsSubsequence reports whether sub is a subsequence of list.
func vfIsSubsequence(sub, list []bitstr.Key) bool {
	j := 0
	for _, e := range list {
		if j < len(sub) && sub[j] == e {
			j++
		}
	}
	return j == len(sub)
}

type vfQueueModel struct {
	order []bitstr.Key // expected prefix order
	in    []bool       // in[i]: key i is queued
}

// vfCheckQueue asserts the state-level facts of the property.
func vfCheckQueue(q *ProvideQueue, m *vfQueueModel, mhs []mh.Multihash, when string) {
	got := vfQueuePrefixes(&q.queue)
	// prefixes never overlap, no duplicates
	for i := range got {
		for j := range got {
			if i != j {
				vfAssert(!keyspace.IsBitstrPrefix(got[i], got[j]), "queue/prefixes-never-overlap")
			}
		}
	}
	// the order structure and the membership structure agree (representation invariant)
	vfAssert(q.queue.prefixes.Size() == len(got), "queue/inv-deque-and-trie-same-size")
	for _, p := range got {
		found, _ := trieFind(q, p)
		vfAssert(found, "queue/inv-deque-prefix-in-trie")
	}
	// exactly the model's keys are queued, each once
	n := 0
	for i := range mhs {
		if m.in[i] {
			n++
		}
	}
	vfAssert(q.keys.Size() == n, "queue/size-equals-number-of-queued-keys")
	// every queued key is covered by exactly one queued prefix (no lost work)
	for i, h := range mhs {
		if !m.in[i] {
			continue
		}
		c := 0
		for _, p := range got {
			if vfIsPrefix(p, h) {
				c++
			}
		}
		vfAssert(c == 1, "queue/every-queued-key-under-exactly-one-prefix")
	}
}

// VfDequeueMatchingDrain (C19): regions are drained piecewise with
// DequeueMatching on prefixes LONGER than the queued ones (as the provider
// does when a region turns out to be split), then the rest is dequeued. M keys
// with W-bit identifiers are queued under their own prefixes of length < L.
func VfDequeueMatchingDrain() {
	M, L, D := vfParam("M"), vfParam("L"), vfParam("D")
	vfHashBits(vfParam("W"))
	mhs := make([]mh.Multihash, M)
	for i := range mhs {
		mhs[i] = vfMh(i)
	}
	q := NewProvideQueue()
	m := &vfQueueModel{in: make([]bool, M)}
	for i := range mhs {
		p := vfKadPrefix(mhs[i], vfChoose("enq.len", L))
		q.Enqueue(p, mhs[i])
		m.order = vfPushModel(m.order, p)
		m.in[i] = true
	}
	vfAssert(vfSameList(vfQueuePrefixes(&q.queue), m.order), "queue/enqueue-keeps-first-enqueue-order-with-absorption")
	for d := 0; d < D; d++ {
		l := vfChoose("dm.len", L+1)
		b := make([]byte, l)
		for x := range b {
			b[x] = vfIte(vfBool("dm.bit"), byte('1'), byte('0'))
		}
		p := bitstr.Key(string(b))
		before := m.order
		keys := q.DequeueMatching(p)
		vfDequeuedExactly(keys, p, m, mhs, "queue/dequeue-matching-returns-all-and-only-keys-under-prefix")
		after := vfQueuePrefixes(&q.queue)
		vfAssert(vfIsSubsequence(after, before), "queue/dequeue-matching-never-reorders-or-adds")
		m.order = after
		vfCheckQueue(q, m, mhs, "after-dequeue-matching")
	}
	for len(m.order) > 0 {
		p, keys, ok := q.Dequeue()
		vfAssert(ok, "queue/dequeue-nonempty-succeeds")
		vfAssert(p == m.order[0], "queue/dequeue-returns-oldest-prefix")
		m.order = m.order[1:]
		vfAssert(len(keys) > 0, "queue/a-dequeued-prefix-comes-with-its-keys")
		vfDequeuedExactly(keys, p, m, mhs, "queue/dequeue-returns-all-and-only-keys-under-prefix")
		vfCheckQueue(q, m, mhs, "after-dequeue")
	}
	_, _, ok := q.Dequeue()
	vfAssert(!ok, "queue/dequeue-empty-reports-empty")
	for i := range m.in {
		vfAssert(!m.in[i], "queue/every-key-was-handed-out")
	}
	vfReach("drain/end")
}

var _ = vfRegister("VfDequeueMatchingDrain", VfDequeueMatchingDrain)

func trieFind(q *ProvideQueue, p bitstr.Key) (bool, struct{}) {
	k, ok := keyspace.FindPrefixOfKey(q.queue.prefixes, p)
	return ok && k == p, struct{}{}
}

// VfProvideQueueHistory: bounded histories of provide-queue operations against
// the statement-level reference.
func VfProvideQueueHistory() {
	M, L, K := vfParam("M"), vfParam("L"), vfParam("K")
	vfHashBits(vfParam("W"))
	mhs := make([]mh.Multihash, M)
	for i := range mhs {
		mhs[i] = vfMh(i)
	}
	q := NewProvideQueue()
	m := &vfQueueModel{in: make([]bool, M)}

	for step := 0; step < K; step++ {
		op := vfChoose("op", 5)
		if step < vfParam("WARMUP") {
			op = 0
		}
		switch op {
		case 0: // Enqueue(prefix of key i, key i [+ key j if it matches])
			i := vfChoose("enq.key", M)
			l := vfChoose("enq.len", L+1)
			p := vfKadPrefix(mhs[i], l)
			keys := []mh.Multihash{mhs[i]}
			sel := []int{i}
			if M > 1 && vfBool("enq.second") {
				j := (i + 1) % M
				if vfIsPrefix(p, mhs[j]) {
					keys = append(keys, mhs[j])
					sel = append(sel, j)
				}
			}
			q.Enqueue(p, keys...)
			m.order = vfPushModel(m.order, p)
			for _, x := range sel {
				m.in[x] = true
			}
			vfAssert(vfSameList(vfQueuePrefixes(&q.queue), m.order), "queue/enqueue-keeps-first-enqueue-order-with-absorption")
		case 1: // Dequeue
			p, keys, ok := q.Dequeue()
			if len(m.order) == 0 {
				vfAssert(!ok, "queue/dequeue-empty-reports-empty")
				break
			}
			vfAssert(ok, "queue/dequeue-nonempty-succeeds")
			vfAssert(p == m.order[0], "queue/dequeue-returns-oldest-prefix")
			m.order = m.order[1:]
			vfDequeuedExactly(keys, p, m, mhs, "queue/dequeue-returns-all-and-only-keys-under-prefix")
			vfAssert(vfSameList(vfQueuePrefixes(&q.queue), m.order), "queue/dequeue-keeps-order-of-the-rest")
		case 2: // DequeueMatching(arbitrary prefix)
			l := vfChoose("dm.len", L+1)
			b := make([]byte, l)
			for x := range b {
				b[x] = vfIte(vfBool("dm.bit"), byte('1'), byte('0'))
			}
			p := bitstr.Key(string(b))
			before := m.order
			keys := q.DequeueMatching(p)
			vfDequeuedExactly(keys, p, m, mhs, "queue/dequeue-matching-returns-all-and-only-keys-under-prefix")
			after := vfQueuePrefixes(&q.queue)
			vfAssert(vfIsSubsequence(after, before), "queue/dequeue-matching-never-reorders-or-adds")
			m.order = after
		case 3: // Remove(key i [, key i again, key j])
			i := vfChoose("rm.key", M)
			ks := []mh.Multihash{mhs[i]}
			if vfBool("rm.repeat") {
				ks = append(ks, mhs[i])
			}
			if M > 1 && vfBool("rm.second") {
				ks = append(ks, mhs[(i+1)%M])
				m.in[(i+1)%M] = false
			}
			m.in[i] = false
			before := m.order
			q.Remove(ks...)
			after := vfQueuePrefixes(&q.queue)
			vfAssert(vfIsSubsequence(after, before), "queue/remove-never-reorders-or-adds")
			m.order = after
		case 4: // Clear
			n := 0
			for i := range m.in {
				if m.in[i] {
					n++
				}
				m.in[i] = false
			}
			got := q.Clear()
			vfAssert(got == n, "queue/clear-returns-number-of-keys")
			m.order = nil
		}
		vfCheckQueue(q, m, mhs, "after-op")
	}
	vfReach("queue/end")
}

// vfDequeuedExactly checks that keys are exactly the queued keys under p,
// without duplicates, and removes them from the model.
func vfDequeuedExactly(keys []mh.Multihash, p bitstr.Key, m *vfQueueModel, mhs []mh.Multihash, label string) {
	cnt := make([]int, len(mhs))
	for _, k := range keys {
		hit := false
		for i, h := range mhs {
			if string(k) == string(h) {
				cnt[i]++
				hit = true
			}
		}
		vfAssert(hit, label+"/known")
	}
	for i, h := range mhs {
		want := 0
		if m.in[i] && vfIsPrefix(p, h) {
			want = 1
			m.in[i] = false
		}
		vfAssert(cnt[i] == want, label)
	}
}

var _ = vfRegister("VfProvideQueueHistory", VfProvideQueueHistory)

// vfConcretePrefix returns the first l bits of h's kademlia identifier as a
// concrete bit string (forking on the bits).
func vfConcretePrefix(h mh.Multihash, l int) bitstr.Key {
	k := keyspace.MhToBit256(h)
	b := make([]byte, l)
	for i := 0; i < l; i++ {
		if k.Bit(i) == 1 {
			b[i] = '1'
		} else {
			b[i] = '0'
		}
	}
	return bitstr.Key(string(b))
}

// VfProvideQueuePersist: persisting the queue and draining it into a fresh one
// restores the same prefixes, order and keys - whatever was persisted before.
func VfProvideQueuePersist() {
	M, L, K := vfParam("M"), vfParam("L"), vfParam("K")
	vfHashBits(vfParam("W"))
	ctx := context.Background()
	mhs := make([]mh.Multihash, M)
	for i := range mhs {
		mhs[i] = vfMh(i)
	}
	q := NewProvideQueue()
	d := dssync.MutexWrap(ds.NewMapDatastore())
	in := make([]bool, M)
	for step := 0; step < K; step++ {
		switch vfChoose("op", 4) {
		case 0:
			i := vfChoose("enq.key", M)
			p := vfConcretePrefix(mhs[i], vfChoose("enq.len", L+1))
			q.Enqueue(p, mhs[i])
			in[i] = true
		case 1:
			p, keys, ok := q.Dequeue()
			if ok {
				for _, k := range keys {
					for i, h := range mhs {
						if string(k) == string(h) {
							in[i] = false
						}
					}
				}
			}
			_ = p
		case 2:
			q.Clear()
			for i := range in {
				in[i] = false
			}
		case 3:
			err := q.Persist(ctx, d, 1+vfChoose("batch", 3))
			vfAssert(err == nil, "persist/no-error-on-healthy-datastore")
		}
	}
	want := vfQueuePrefixes(&q.queue)
	err := q.Persist(ctx, d, 1+vfChoose("batch.final", 3))
	vfAssert(err == nil, "persist/no-error-on-healthy-datastore")
	q2 := NewProvideQueue()
	err = q2.DrainDatastore(ctx, d)
	vfAssert(err == nil, "drain/no-error-on-healthy-datastore")
	got := vfQueuePrefixes(&q2.queue)
	vfAssert(vfSameList(got, want), "persist-drain/same-prefixes-in-same-order")
	n := 0
	for i, h := range mhs {
		f, _ := trie.Find(q2.keys, keyspace.MhToBit256(h))
		vfAssert(f == in[i], "persist-drain/same-keys")
		if in[i] {
			n++
		}
	}
	vfAssert(q2.keys.Size() == n, "persist-drain/no-extra-keys")
	res, qerr := d.Query(ctx, query.Query{KeysOnly: true})
	vfAssert(qerr == nil, "drain/query-ok")
	rest, _ := res.Rest()
	vfAssert(len(rest) == 0, "drain/datastore-emptied")
	vfReach("persist/end")
}

var _ = vfRegister("VfProvideQueuePersist", VfProvideQueuePersist)

// VfProvideQueueManyRegions (C19): persist + drain of a queue with many regions
// (positions beyond one hexadecimal digit): same prefixes in the same order with
// the same keys, and the datastore is emptied.
func VfProvideQueueManyRegions() {
	vfHashBits(5)
	vfHashFixed() // the i-th key gets identifier prefix i (5 bits): its region is the 5-bit prefix i
	ctx := context.Background()
	n := 1 + 4*vfChoose("regions/4", (vfParam("N")+3)/4) + vfChoose("regions%4", 4)
	if n > vfParam("N") {
		return
	}
	q := NewProvideQueue()
	d := dssync.MutexWrap(ds.NewMapDatastore())
	mhs := make([]mh.Multihash, n)
	for i := range mhs {
		mhs[i] = vfMh(i)
		q.Enqueue(vfConcretePrefix(mhs[i], 5), mhs[i])
	}
	want := vfQueuePrefixes(&q.queue)
	vfAssert(len(want) == n, "manyregions/setup")
	err := q.Persist(ctx, d, 1+vfChoose("batch", 3))
	vfAssert(err == nil, "persist/no-error-on-healthy-datastore")
	q2 := NewProvideQueue()
	err = q2.DrainDatastore(ctx, d)
	vfAssert(err == nil, "drain/no-error-on-healthy-datastore")
	vfAssert(vfSameList(vfQueuePrefixes(&q2.queue), want), "persist-drain/same-prefixes-in-same-order")
	for _, h := range mhs {
		f, _ := trie.Find(q2.keys, keyspace.MhToBit256(h))
		vfAssert(f, "persist-drain/same-keys")
	}
	vfAssert(q2.keys.Size() == n, "persist-drain/no-extra-keys")
	res, qerr := d.Query(ctx, query.Query{KeysOnly: true})
	vfAssert(qerr == nil, "drain/query-ok")
	rest, _ := res.Rest()
	vfAssert(len(rest) == 0, "drain/datastore-emptied")
	vfReach("manyregions/end")
}

var _ = vfRegister("VfProvideQueueManyRegions", VfProvideQueueManyRegions)

// VfReprovideQueue: unique, non-overlapping prefixes in first-enqueue order.
func VfReprovideQueue() {
	L, K := vfParam("L"), vfParam("K")
	q := NewReprovideQueue()
	var model []bitstr.Key
	for step := 0; step < K; step++ {
		switch vfChoose("op", 4) {
		case 0:
			// one call may name several prefixes, overlapping or not
			var ps []bitstr.Key
			for n := 1 + vfChoose("nPrefixes", vfParam("BATCH")); n > 0; n-- {
				l := vfChoose("len", L+1)
				b := make([]byte, l)
				for x := range b {
					b[x] = vfIte(vfBool("bit"), byte('1'), byte('0'))
				}
				ps = append(ps, bitstr.Key(string(b)))
			}
			q.Enqueue(ps...)
			for _, p := range ps {
				model = vfPushModel(model, p)
			}
		case 1:
			p, ok := q.Dequeue()
			if len(model) == 0 {
				vfAssert(!ok, "reprovide/dequeue-empty")
			} else {
				vfAssert(ok, "reprovide/dequeue-nonempty")
				vfAssert(p == model[0], "reprovide/dequeue-returns-oldest")
				model = model[1:]
			}
		case 2:
			l := vfChoose("rlen", L+1)
			b := make([]byte, l)
			for x := range b {
				b[x] = vfIte(vfBool("rbit"), byte('1'), byte('0'))
			}
			p := bitstr.Key(string(b))
			removed := q.Remove(p)
			var rest []bitstr.Key
			any := false
			for _, e := range model {
				if keyspace.IsBitstrPrefix(p, e) {
					any = true
				} else {
					rest = append(rest, e)
				}
			}
			vfAssert(removed == any, "reprovide/remove-reports-whether-something-was-removed")
			model = rest
		case 3:
			n := q.Clear()
			vfAssert(n == len(model), "reprovide/clear-returns-size")
			model = nil
		}
		got := vfQueuePrefixes(&q.queue)
		vfAssert(vfSameList(got, model), "reprovide/unique-nonoverlapping-first-enqueue-order")
		vfAssert(q.Size() == len(model), "reprovide/size")
		vfAssert(q.IsEmpty() == (len(model) == 0), "reprovide/isempty")
	}
	vfReach("reprovide/end")
}

var _ = vfRegister("VfReprovideQueue", VfReprovideQueue)
