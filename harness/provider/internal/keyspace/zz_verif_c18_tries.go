//go:build verif

package keyspace

import (
	"strconv"

	"github.com/ipfs/go-libdht/kad/key/bitstr"
	"github.com/ipfs/go-libdht/kad/trie"
)

// vfBitstr returns a bit string of symbolic length <= maxLen with symbolic bits.
func vfBitstr(name string, maxLen int) bitstr.Key {
	l := vfChoose(name+".len", maxLen+1)
	return vfBitstrN(name, l)
}

func vfBitstrN(name string, l int) bitstr.Key {
	b := make([]byte, l)
	for i := range b {
		b[i] = vfIte(vfBool(name+".bit"), byte('1'), byte('0'))
	}
	return bitstr.Key(string(b))
}

// vfPre reports "p is a prefix of x" as one boolean without forking.
func vfPre(p, x bitstr.Key) bool {
	if len(p) > len(x) {
		return false
	}
	r := true
	for i := 0; i < len(p); i++ {
		r = vfAnd(r, p[i] == x[i])
	}
	return r
}

func vfEqKey(a, b bitstr.Key) bool { return len(a) == len(b) && vfPre(a, b) }

// vfCovered reports whether some key of keys is a prefix of x.
func vfCovered(keys []bitstr.Key, x bitstr.Key) bool {
	r := false
	for _, k := range keys {
		r = vfOr(r, vfPre(k, x))
	}
	return r
}

func vfCount(keys []bitstr.Key, x bitstr.Key) int {
	n := 0
	for _, k := range keys {
		n += vfIte(vfPre(k, x), 1, 0)
	}
	return n
}

func vfContains(keys []bitstr.Key, x bitstr.Key) bool {
	r := false
	for _, k := range keys {
		r = vfOr(r, vfEqKey(k, x))
	}
	return r
}

// vfAllStrings returns every bit string of exactly n bits.
func vfAllStrings(n int) []bitstr.Key {
	out := []bitstr.Key{""}
	for i := 0; i < n; i++ {
		var next []bitstr.Key
		for _, s := range out {
			next = append(next, s+"0", s+"1")
		}
		out = next
	}
	return out
}

// vfPrefixFreeTrie builds a trie from n symbolic keys (n chosen in [0,maxN])
// assumed pairwise prefix-free, as the scheduling code maintains them.
func vfPrefixFreeTrie(name string, maxN, maxLen int) (*trie.Trie[bitstr.Key, int], []bitstr.Key) {
	n := vfChoose(name+".n", maxN+1)
	keys := make([]bitstr.Key, n)
	t := trie.New[bitstr.Key, int]()
	for i := 0; i < n; i++ {
		keys[i] = vfBitstr(name+strconv.Itoa(i), maxLen)
		for j := 0; j < i; j++ {
			vfAssume(vfAnd(!vfPre(keys[i], keys[j]), !vfPre(keys[j], keys[i])))
		}
		t.Add(keys[i], i)
	}
	return t, keys
}

func vfTrieKeys(t *trie.Trie[bitstr.Key, int]) []bitstr.Key {
	return AllKeys(t, zeroKey)
}

// VfSubtractTrie: result = keys of t0 not covered by a prefix in t1.
func VfSubtractTrie() {
	L := vfParam("L")
	t0, k0 := vfPrefixFreeTrie("a", vfParam("N0"), L)
	t1, k1 := vfPrefixFreeTrie("b", vfParam("N1"), L)
	res := vfTrieKeys(SubtractTrie(t0, t1))
	for _, k := range k0 {
		want := !vfCovered(k1, k)
		vfAssert(vfContains(res, k) == want, "subtract/kept-iff-not-covered-by-t1")
	}
	for _, r := range res {
		vfAssert(vfContains(k0, r), "subtract/result-subset-of-t0")
	}
	vfAssert(len(res) <= len(k0), "subtract/no-duplicates")
	vfReach("subtract/end")
}

// VfTrieGaps: gaps and trie keys tile the target exactly, in the given order.
func VfTrieGaps() {
	L := vfParam("L")
	t, keys := vfPrefixFreeTrie("k", vfParam("N"), L)
	target := vfBitstr("target", vfParam("T"))
	order := vfBitstrN("order", L+1)
	gaps := TrieGaps(t, target, order)
	for _, x := range vfAllStrings(L + 1) {
		inTarget := vfPre(target, x)
		byTrie := vfCovered(keys, x)
		nGaps := vfCount(gaps, x)
		// inside the target: covered by the trie or by exactly one gap, never both
		vfAssert(vfImplies(vfAnd(inTarget, byTrie), nGaps == 0), "gaps/never-overlap-a-trie-key")
		vfAssert(vfImplies(vfAnd(inTarget, !byTrie), nGaps == 1), "gaps/every-uncovered-point-in-exactly-one-gap")
		if len(target) <= 1 {
			vfAssert(vfImplies(!inTarget, nGaps == 0), "gaps/stay-inside-target")
		} else {
			// targets of 2+ bits: see KNOWN_FINDINGS (leaf met above the target's depth)
			vfAssert(vfImplies(!inTarget, nGaps == 0), "gaps/stay-inside-target(target-of-2+-bits)")
		}
	}
	// sorted by XOR distance to order
	for i := 0; i+1 < len(gaps); i++ {
		vfAssert(vfOrderLess(gaps[i], gaps[i+1], order), "gaps/sorted-by-order")
	}
	vfReach("gaps/end")
}

// vfOrderLess: a comes strictly before b when both are XORed with order
// (a, b prefix-free; order at least as long as both).
func vfOrderLess(a, b, order bitstr.Key) bool {
	n := len(a)
	if len(b) < n {
		n = len(b)
	}
	lt := false
	eq := true
	for i := 0; i < n; i++ {
		xa, xb := a[i] != order[i], b[i] != order[i] // XOR bit set?
		lt = vfOr(lt, vfAnd(eq, vfAnd(!xa, xb)))
		eq = vfAnd(eq, xa == xb)
	}
	return lt
}

// VfNextNonEmptyLeaf: cyclic successor of k in XOR order.
func VfNextNonEmptyLeaf() {
	L := vfParam("L")
	n := 1 + vfChoose("n", vfParam("N"))
	t := trie.New[bitstr.Key, int]()
	keys := make([]bitstr.Key, n)
	for i := range keys {
		keys[i] = vfBitstrN("k"+strconv.Itoa(i), L)
		for j := 0; j < i; j++ {
			vfAssume(!vfEqKey(keys[i], keys[j]))
		}
		t.Add(keys[i], i)
	}
	k := vfBitstrN("cursor", L)
	order := vfBitstrN("order", L)
	e := NextNonEmptyLeaf(t, k, order)
	vfAssert(e != nil, "next/non-empty-trie-always-has-a-next-leaf")
	if e == nil {
		return
	}
	got := e.Key
	vfAssert(vfContains(keys, got), "next/result-is-a-trie-key")
	// successor: smallest key strictly after k; else (wrap) the smallest key
	anyAfter := false
	for _, x := range keys {
		anyAfter = vfOr(anyAfter, vfOrderLess(k, x, order))
	}
	for _, x := range keys {
		after := vfOrderLess(k, x, order)
		// if some key is after k: got is after k and no key lies strictly between
		vfAssert(vfImplies(anyAfter, vfOrderLess(k, got, order)), "next/is-after-cursor-when-one-exists")
		vfAssert(vfImplies(vfAnd(anyAfter, after), !vfOrderLess(x, got, order)), "next/no-key-between-cursor-and-result")
		// wrap-around: got is the first key overall
		vfAssert(vfImplies(!anyAfter, !vfOrderLess(x, got, order)), "next/wraps-to-first-key")
	}
	vfReach("next/end")
}

// VfCoalescePrune: CoalesceTrie keeps the covered set and leaves no sibling
// pair; PruneSubtrie removes exactly the keys under the prefix.
func VfCoalescePrune() {
	L := vfParam("L")
	t, keys := vfPrefixFreeTrie("k", vfParam("N"), L)
	if vfBool("doPrune") {
		p := vfBitstr("p", L)
		PruneSubtrie(t, p)
		res := vfTrieKeys(t)
		for _, k := range keys {
			vfAssert(vfContains(res, k) == !vfPre(p, k), "prune/removes-exactly-keys-under-prefix")
		}
		vfAssert(len(res) <= len(keys), "prune/no-new-keys")
		for _, r := range res {
			vfAssert(vfContains(keys, r), "prune/no-new-keys")
		}
		return
	}
	CoalesceTrie(t)
	res := vfTrieKeys(t)
	for _, x := range vfAllStrings(L + 1) {
		vfAssert(vfCovered(res, x) == vfCovered(keys, x), "coalesce/covered-set-unchanged")
	}
	for i := range res {
		for j := range res {
			if i != j && len(res[i]) == len(res[j]) && len(res[i]) > 0 {
				l := len(res[i]) - 1
				vfAssert(!vfAnd(vfPre(res[i][:l], res[j]), res[i][l] != res[j][l]), "coalesce/no-sibling-pair-left")
				vfAssert(!vfPre(res[i], res[j]), "coalesce/result-prefix-free")
			}
		}
	}
	vfReach("coalesce/end")
}

// VfFindAndCovered: FindPrefixOfKey, FindSubtrie and KeyspaceCovered.
func VfFindAndCovered() {
	L := vfParam("L")
	t, keys := vfPrefixFreeTrie("k", vfParam("N"), L)
	q := vfBitstr("q", L+1)
	got, ok := FindPrefixOfKey(t, q)
	vfAssert(ok == vfCovered(keys, q), "findprefix/found-iff-some-key-is-a-prefix")
	if ok {
		vfAssert(vfAnd(vfContains(keys, got), vfPre(got, q)), "findprefix/returns-that-key")
	}
	sub, sok := FindSubtrie(t, q)
	under := false
	for _, k := range keys {
		under = vfOr(under, vfPre(q, k))
	}
	vfAssert(sok == under, "findsubtrie/ok-iff-some-key-under-prefix")
	if sok {
		sk := vfTrieKeys(sub)
		for _, k := range keys {
			vfAssert(vfContains(sk, k) == vfPre(q, k), "findsubtrie/holds-exactly-keys-under-prefix")
		}
	}
	cov := KeyspaceCovered(t)
	all := true
	for _, x := range vfAllStrings(L + 1) {
		all = vfAnd(all, vfCovered(keys, x))
	}
	vfAssert(cov == all, "covered/true-iff-every-point-covered")
	vfReach("find/end")
}

var _ = vfRegister("VfSubtractTrie", VfSubtractTrie)
var _ = vfRegister("VfTrieGaps", VfTrieGaps)
var _ = vfRegister("VfNextNonEmptyLeaf", VfNextNonEmptyLeaf)
var _ = vfRegister("VfCoalescePrune", VfCoalescePrune)
var _ = vfRegister("VfFindAndCovered", VfFindAndCovered)
