//go:build verif

package keyspace

import (
	"strconv"

	"github.com/ipfs/go-libdht/kad/key/bit256"
	"github.com/ipfs/go-libdht/kad/key/bitstr"
	"github.com/libp2p/go-libp2p/core/peer"
	mh "github.com/multiformats/go-multihash"
)

// VfRegionsAllocate (C18, C17): the region pipeline the provider runs for a
// batch - RegionsFromPeers, AssignKeysToRegions, AllocateToKClosest per region -
// hands every key to exactly its r globally nearest peers, for every placement
// of peers and keys.
func VfRegionsAllocate() {
	N, M := vfParam("N"), vfParam("M")
	vfHashBits(vfParam("W"))
	n := 1 + vfChoose("nPeers", N)
	m := 1 + vfChoose("nKeys", M)
	r := 1 + vfChoose("r", vfParam("R"))
	peers := make([]peer.ID, n)
	pk := make([][]byte, n)
	for i := range peers {
		peers[i] = peer.ID(vfHashInput("peer"+strconv.Itoa(i), nil, 6))
		pk[i] = vfKeyBytes(PeerIDToBit256(peers[i]))
	}
	keys := make([]mh.Multihash, m)
	kk := make([][]byte, m)
	for i := range keys {
		keys[i] = mh.Multihash(vfHashInput("key"+strconv.Itoa(i), []byte{0x12, 0x20}, 32))
		kk[i] = vfKeyBytes(MhToBit256(keys[i]))
	}
	order := bit256.ZeroKey()

	regions := RegionsFromPeers(peers, r, order, "")
	regions = AssignKeysToRegions(regions, keys)

	peerRegion := make([]int, n)
	for i := range peerRegion {
		peerRegion[i] = -1
	}
	got := make([][]int, m) // got[k][p] = times key k is handed to peer p
	for i := range got {
		got[i] = make([]int, n)
	}
	keyRegions := make([]int, m)
	for ri, rg := range regions {
		for _, p := range AllValues(rg.Peers, order) {
			for i := range peers {
				if peers[i] == p {
					vfAssert(peerRegion[i] == -1, "regions/every-peer-in-at-most-one-region")
					peerRegion[i] = ri
				}
			}
		}
		for _, h := range AllValues(rg.Keys, order) {
			for i := range keys {
				if string(keys[i]) == string(h) {
					keyRegions[i]++
				}
			}
		}
		for p, batches := range AllocateToKClosest(rg.Keys, rg.Peers, r) {
			pi := -1
			for i := range peers {
				if peers[i] == p {
					pi = i
				}
			}
			vfAssert(pi >= 0, "regions/records-go-to-known-peers")
			for _, b := range batches {
				for _, h := range b {
					for i := range keys {
						if pi >= 0 && string(keys[i]) == string(h) {
							got[i][pi]++
						}
					}
				}
			}
		}
	}
	for i := range peers {
		vfAssert(peerRegion[i] >= 0, "regions/every-peer-in-a-region")
	}
	want := r
	if n < r {
		want = n
	}
	for k := 0; k < m; k++ {
		vfAssert(keyRegions[k] == 1, "regions/every-key-in-exactly-one-region")
		cnt := 0
		for p := 0; p < n; p++ {
			vfAssert(got[k][p] <= 1, "regions/key-once-per-peer")
			if got[k][p] > 0 {
				cnt++
			}
		}
		vfAssert(cnt == want, "regions/every-key-goes-to-exactly-min-r-N-peers")
		for a := 0; a < n; a++ {
			for b := 0; b < n; b++ {
				if got[k][a] > 0 && got[k][b] == 0 {
					vfAssert(vfXorLess(kk[k], pk[a], pk[b]), "regions/recipients-are-the-globally-xor-nearest-peers")
				}
			}
		}
	}
	vfReach("regions/end")
}

var _ = vfRegister("VfRegionsAllocate", VfRegionsAllocate)

// VfAssignFallback (C18): AssignKeysToRegions with regions that do not cover the
// whole keyspace: every key ends up in exactly one region - the one whose prefix
// it matches, otherwise one sharing the longest common prefix with it.
func VfAssignFallback() {
	vfHashBits(vfParam("W"))
	sets := [][]string{{"000", "11"}, {"11", "000"}, {"01", "100", "101"}, {"0", "10"}, {"001", "01", "1"}, {"111", "0"}}
	set := sets[vfChoose("regions", len(sets))]
	regions := make([]Region, len(set))
	for i, p := range set {
		regions[i] = Region{Prefix: bitstr.Key(p)}
	}
	m := 1 + vfChoose("nKeys", vfParam("M"))
	keys := make([]mh.Multihash, m)
	for i := range keys {
		keys[i] = mh.Multihash(vfHashInput("key"+strconv.Itoa(i), []byte{0x12, 0x20}, 32))
	}
	regions = AssignKeysToRegions(regions, keys)
	order := bit256.ZeroKey()
	for _, h := range keys {
		k := MhToBit256(h)
		in := -1
		n := 0
		for ri, rg := range regions {
			for _, x := range AllValues(rg.Keys, order) {
				if string(x) == string(h) {
					n++
					in = ri
				}
			}
		}
		vfAssert(n == 1, "assign/every-key-in-exactly-one-region")
		if in < 0 {
			continue
		}
		// common prefix length of the key with each region prefix
		cpl := func(p string) int {
			c := 0
			for i := 0; i < len(p); i++ {
				if byte('0'+k.Bit(i)) != p[i] {
					break
				}
				c++
			}
			return c
		}
		matched := false
		best := -1
		for _, p := range set {
			c := cpl(p)
			if c == len(p) {
				matched = true
			}
			if c > best {
				best = c
			}
		}
		if matched {
			vfAssert(cpl(set[in]) == len(set[in]), "assign/a-key-goes-to-the-region-whose-prefix-it-matches")
		} else {
			vfAssert(cpl(set[in]) == best, "assign/an-uncovered-key-goes-to-a-region-sharing-the-longest-prefix")
		}
	}
	vfReach("assign/end")
}

var _ = vfRegister("VfAssignFallback", VfAssignFallback)
