//go:build verif

package keyspace

import (
	"strconv"

	"github.com/ipfs/go-libdht/kad/key/bit256"
	"github.com/libp2p/go-libp2p/core/peer"
	mh "github.com/multiformats/go-multihash"
)

// VfRegionsAllocate (C18, C17): the region pipeline the provider runs for a
// batch - RegionsFromPeers, AssignKeysToRegions, AllocateToKClosest per region -
// hands every key to exactly its r globally nearest peers, for every placement
// of peers and keys.
func VfRegionsAllocate() {
	N, M := vfParam("N"), vfParam("M")
	vfHashBits(vfParam("W"))
	n := 1 + vfChoose("nPeers", N)
	m := 1 + vfChoose("nKeys", M)
	r := 1 + vfChoose("r", vfParam("R"))
	peers := make([]peer.ID, n)
	pk := make([][]byte, n)
	for i := range peers {
		peers[i] = peer.ID(vfHashInput("peer"+strconv.Itoa(i), nil, 6))
		pk[i] = vfKeyBytes(PeerIDToBit256(peers[i]))
	}
	keys := make([]mh.Multihash, m)
	kk := make([][]byte, m)
	for i := range keys {
		keys[i] = mh.Multihash(vfHashInput("key"+strconv.Itoa(i), []byte{0x12, 0x20}, 32))
		kk[i] = vfKeyBytes(MhToBit256(keys[i]))
	}
	order := bit256.ZeroKey()

	regions := RegionsFromPeers(peers, r, order, "")
	regions = AssignKeysToRegions(regions, keys)

	peerRegion := make([]int, n)
	for i := range peerRegion {
		peerRegion[i] = -1
	}
	got := make([][]int, m) // got[k][p] = times key k is handed to peer p
	for i := range got {
		got[i] = make([]int, n)
	}
	keyRegions := make([]int, m)
	for ri, rg := range regions {
		for _, p := range AllValues(rg.Peers, order) {
			for i := range peers {
				if peers[i] == p {
					vfAssert(peerRegion[i] == -1, "regions/every-peer-in-at-most-one-region")
					peerRegion[i] = ri
				}
			}
		}
		for _, h := range AllValues(rg.Keys, order) {
			for i := range keys {
				if string(keys[i]) == string(h) {
					keyRegions[i]++
				}
			}
		}
		for p, batches := range AllocateToKClosest(rg.Keys, rg.Peers, r) {
			pi := -1
			for i := range peers {
				if peers[i] == p {
					pi = i
				}
			}
			vfAssert(pi >= 0, "regions/records-go-to-known-peers")
			for _, b := range batches {
				for _, h := range b {
					for i := range keys {
						if pi >= 0 && string(keys[i]) == string(h) {
							got[i][pi]++
						}
					}
				}
			}
		}
	}
	for i := range peers {
		vfAssert(peerRegion[i] >= 0, "regions/every-peer-in-a-region")
	}
	want := r
	if n < r {
		want = n
	}
	for k := 0; k < m; k++ {
		vfAssert(keyRegions[k] == 1, "regions/every-key-in-exactly-one-region")
		cnt := 0
		for p := 0; p < n; p++ {
			vfAssert(got[k][p] <= 1, "regions/key-once-per-peer")
			if got[k][p] > 0 {
				cnt++
			}
		}
		vfAssert(cnt == want, "regions/every-key-goes-to-exactly-min-r-N-peers")
		for a := 0; a < n; a++ {
			for b := 0; b < n; b++ {
				if got[k][a] > 0 && got[k][b] == 0 {
					vfAssert(vfXorLess(kk[k], pk[a], pk[b]), "regions/recipients-are-the-globally-xor-nearest-peers")
				}
			}
		}
	}
	vfReach("regions/end")
}

var _ = vfRegister("VfRegionsAllocate", VfRegionsAllocate)
