//go:build verif

package keyspace

import (
	"strconv"

	"github.com/ipfs/go-libdht/kad/key/bit256"
	"github.com/ipfs/go-libdht/kad/trie"
)

// ---- helpers shared by the C18 harnesses ----

// vfKey256 returns the 256-bit kademlia identifier of a harness-controlled
// hash input: under the engine an arbitrary value (hash stub).
func vfKey256(name string) bit256.Key {
	return MhToBit256(vfHashInput(name, nil, 6))
}

func vfKeyBytes(k bit256.Key) []byte {
	b, _ := k.MarshalBinary()
	return b
}

// vfXorLess reports dist(t,a) < dist(t,b) as a single (possibly symbolic)
// boolean, without forking.
func vfXorLess(t, a, b []byte) bool {
	lt := false
	eq := true
	for i := range t {
		da, db := t[i]^a[i], t[i]^b[i]
		lt = vfOr(lt, vfAnd(eq, da < db))
		eq = vfAnd(eq, da == db)
	}
	return lt
}

// VfAllocate: AllocateToKClosest assigns every item to exactly min(r, D)
// distinct destinations and these are the XOR-nearest ones.
func VfAllocate() {
	maxI, maxD := vfParam("I"), vfParam("D")
	vfHashBits(vfParam("W"))
	nI := 1 + vfChoose("nItems", maxI)
	nD := 1 + vfChoose("nDests", maxD)
	r := vfRange("r", 0, maxD+1)

	items := trie.New[bit256.Key, int]()
	dests := trie.New[bit256.Key, int]()
	ik := make([][]byte, nI)
	dk := make([][]byte, nD)
	for i := 0; i < nI; i++ {
		k := vfKey256("item" + strconv.Itoa(i))
		ik[i] = vfKeyBytes(k)
		items.Add(k, i)
	}
	for d := 0; d < nD; d++ {
		k := vfKey256("dest" + strconv.Itoa(d))
		dk[d] = vfKeyBytes(k)
		dests.Add(k, d)
	}

	res := AllocateToKClosest(items, dests, r)

	// count[i][d] = how many times item i is handed to destination d
	count := make([][]int, nI)
	for i := range count {
		count[i] = make([]int, nD)
	}
	for d, batches := range res {
		vfAssert(d >= 0 && d < nD, "alloc/destination-known")
		for _, batch := range batches {
			for _, it := range batch {
				vfAssert(it >= 0 && it < nI, "alloc/item-known")
				count[it][d]++
			}
		}
	}
	want := r
	if nD < r {
		want = nD
	}
	for i := 0; i < nI; i++ {
		n := 0
		for d := 0; d < nD; d++ {
			vfAssert(count[i][d] <= 1, "alloc/item-once-per-destination")
			if count[i][d] > 0 {
				n++
			}
		}
		vfAssert(n == want, "alloc/exactly-min-r-D-destinations")
		// nearest: every assigned destination is nearer than every unassigned one
		for a := 0; a < nD; a++ {
			for b := 0; b < nD; b++ {
				if count[i][a] > 0 && count[i][b] == 0 {
					vfAssert(vfXorLess(ik[i], dk[a], dk[b]), "alloc/assigned-are-xor-nearest")
				}
			}
		}
	}
	vfReach("alloc/end")
}

var _ = vfRegister("VfAllocate", VfAllocate)
