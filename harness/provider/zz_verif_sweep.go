//go:build verif

package provider

import (
	"context"
	"errors"
	"strconv"
	"sync"
	"time"

	ds "github.com/ipfs/go-datastore"
	"github.com/ipfs/go-datastore/namespace"
	dssync "github.com/ipfs/go-datastore/sync"
	"github.com/ipfs/go-libdht/kad/key"
	"github.com/libp2p/go-libp2p/core/peer"
	ma "github.com/multiformats/go-multiaddr"
	mh "github.com/multiformats/go-multihash"

	pb "github.com/libp2p/go-libp2p-kad-dht/pb"
	"github.com/libp2p/go-libp2p-kad-dht/provider/internal/keyspace"
	"github.com/libp2p/go-libp2p-kad-dht/provider/keystore"
	kb "github.com/libp2p/go-libp2p-kbucket"
)

// the whole sweeping provider on a simulated swarm (C17, C14 Close).
//
// SHA-256 is real here (vfHashReal): the provider relies on kbucket's table of
// real pre-images to aim its lookups. Peer identifiers and keys are found by
// search so that their Kademlia identifiers start with the bits the solver
// chose; everything else (order of events, failures, outages, time) runs in
// virtual time under the cooperative scheduler.

type vfSwarm struct {
	mu      sync.Mutex
	peers   []peer.ID
	offline bool
	bucket  int
	lookups int
	seen    []vfSeen // every peer the router reported, with the time
}

type vfSeen struct {
	p  peer.ID
	at time.Time
}

// reported: the peers the router named in (from, to].
func (s *vfSwarm) reported(from, to time.Time) map[peer.ID]bool {
	out := map[peer.ID]bool{}
	for _, x := range s.seen {
		if x.at.After(from) && !x.at.After(to) {
			out[x.p] = true
		}
	}
	return out
}

func (s *vfSwarm) GetClosestPeers(ctx context.Context, k string) ([]peer.ID, error) {
	s.mu.Lock()
	defer s.mu.Unlock()
	s.lookups++
	if s.offline {
		return nil, errors.New("no peers in routing table")
	}
	if err := ctx.Err(); err != nil {
		return nil, err
	}
	sorted := kb.SortClosestPeers(s.peers, kb.ConvertKey(k))
	if len(sorted) > s.bucket {
		sorted = sorted[:s.bucket]
	}
	for _, p := range sorted {
		s.seen = append(s.seen, vfSeen{p, time.Now()})
	}
	return sorted, nil
}

type vfSend struct {
	key string
	to  peer.ID
	at  time.Time
	ok  bool
}

type vfAddProviderLog struct {
	slowKey     string // sending this key takes 10 s (virtual)
	mu          sync.Mutex
	sends       []vfSend
	unreachable map[peer.ID]bool
	failNext    map[peer.ID]int // the next n sends to that peer fail
	self        peer.ID
	badContent  bool
}

func (l *vfAddProviderLog) SendRequest(context.Context, peer.ID, *pb.Message) (*pb.Message, error) {
	return nil, errors.New("unused")
}

func (l *vfAddProviderLog) SendMessage(ctx context.Context, p peer.ID, m *pb.Message) error {
	if l.slowKey != "" && string(m.GetKey()) == l.slowKey {
		vfAdvance(10 * time.Second)
	}
	l.mu.Lock()
	defer l.mu.Unlock()
	if m.GetType() != pb.Message_ADD_PROVIDER || len(m.GetProviderPeers()) != 1 ||
		string(m.GetProviderPeers()[0].GetId()) != string(l.self) || len(m.GetProviderPeers()[0].GetAddrs()) == 0 {
		l.badContent = true
	}
	ok := !l.unreachable[p]
	if l.failNext[p] > 0 {
		l.failNext[p]--
		ok = false // a transient failure
	}
	l.sends = append(l.sends, vfSend{key: string(m.GetKey()), to: p, at: time.Now(), ok: ok})
	if !ok {
		return errors.New("peer unreachable")
	}
	return nil
}

// vfPeerWithBits: a peer ID whose Kademlia identifier starts with the given bits.
func vfPeerWithBits(bits string, salt int) peer.ID {
	for c := 0; ; c++ {
		p := peer.ID("peer-" + strconv.Itoa(salt) + "-" + strconv.Itoa(c))
		if key.BitString(keyspace.PeerIDToBit256(p))[:len(bits)] == bits {
			return p
		}
	}
}

// vfKeyWithBits: a multihash whose Kademlia identifier starts with the given bits.
func vfKeyWithBits(bits string, salt int) mh.Multihash {
	for c := 0; ; c++ {
		h := make([]byte, 34)
		h[0], h[1] = 0x12, 0x20 // sha2-256, 32 bytes; the digest itself is arbitrary
		h[2], h[3], h[4] = byte(salt), byte(c), byte(c>>8)
		if key.BitString(keyspace.MhToBit256(h))[:len(bits)] == bits {
			return mh.Multihash(h)
		}
	}
}

func vfBitsOf(name string, n int) string {
	b := make([]byte, n)
	v := vfChoose(name, 1<<uint(n))
	for i := range b {
		b[i] = '0' + byte(v>>uint(n-1-i)&1)
	}
	return string(b)
}

func vfClosest(peers []peer.ID, k string, r int) []peer.ID {
	sorted := kb.SortClosestPeers(peers, kb.ConvertKey(k))
	if len(sorted) > r {
		sorted = sorted[:r]
	}
	return sorted
}

// sentTo: the peers that received key k in (from, to].
func (l *vfAddProviderLog) sentTo(k mh.Multihash, from, to time.Time) map[peer.ID]int {
	out := map[peer.ID]int{}
	for _, s := range l.sends {
		if s.key == string(k) && s.at.After(from) && !s.at.After(to) {
			out[s.to]++
		}
	}
	return out
}

// vfShapes: swarm shapes (2-bit prefixes of the peers' Kademlia identifiers).
var vfShapes = [][]string{
	{"00", "00", "01", "01"},       // one half of the keyspace, two regions of r peers
	{"00", "01", "10", "11"},       // uniform
	{"00", "00", "00", "11"},       // clustered with one far peer
	{"00", "00", "00", "00"},       // everything in one quarter
	{"00", "00", "01", "01", "10"}, // five peers
	{"01", "10"},                   // fewer peers than bucket size
}

// VfSweepScenario (C17): a swarm whose shape, and keys whose placement, are
// chosen by the solver; StartProviding, one optional event (stop, provide once,
// outage with a key started meanwhile, swarm growth, keys started in another
// region), then reprovide cycles. Oracle: the ADD_PROVIDER messages seen by the
// fake message sender against the r nearest peers of each key in the swarm at
// that time.
func VfSweepScenario() {
	vfHashReal()
	vfRandSeed(vfChoose("rand.seed", vfParam("SEEDS"))) // the provider samples random keys to estimate the region size
	vfMaxTicks(vfParam("TICKS"))
	M, r := vfParam("M"), vfParam("R")
	self, err := peer.Decode("12BoooooPEER")
	vfAssert(err == nil, "sweep/setup")
	sw := &vfSwarm{bucket: vfParam("BUCKET")}
	shape := vfShapes[vfChoose("swarm.shape", vfParam("SHAPES"))]
	for i, bits := range shape {
		sw.peers = append(sw.peers, vfPeerWithBits(bits, i))
	}
	log := &vfAddProviderLog{self: self, unreachable: map[peer.ID]bool{}, failNext: map[peer.ID]int{}}
	addr, aerr := ma.NewMultiaddr("/ip4/20.0.0.1/tcp/4001")
	vfAssert(aerr == nil, "sweep/setup")
	interval := time.Hour
	maxDelay := 10 * time.Minute
	offlineDelay := 30 * time.Minute
	event := vfParam("ONLYEVENT") // -1: any of the first EVENTS events
	if event < 0 {
		event = vfChoose("event", vfParam("EVENTS"))
	}
	opts := []Option{
		WithReprovideInterval(interval), WithMaxReprovideDelay(maxDelay), WithReplicationFactor(r),
		WithOfflineDelay(offlineDelay), WithConnectivityCheckOnlineInterval(time.Minute),
		WithMaxWorkers(2), WithDedicatedBurstWorkers(1), WithDedicatedPeriodicWorkers(1), WithMaxProvideConnsPerWorker(2),
		WithPeerID(self), WithRouter(sw), WithMessageSender(log),
		WithSelfAddrs(func() []ma.Multiaddr { return []ma.Multiaddr{addr} }),
		WithAddLocalRecord(func(context.Context, mh.Multihash) error { return nil }),
	}
	var restartKs keystore.Keystore
	if event == 7 {
		// the restart scenario needs a datastore and a keystore that outlive the provider
		dstore := dssync.MutexWrap(ds.NewMapDatastore())
		ks, kerr := keystore.NewKeystore(namespace.Wrap(dstore, ds.NewKey("keystore")))
		vfAssert(kerr == nil, "sweep/setup")
		restartKs = ks
		opts = append(opts, WithDatastore(dstore), WithKeystore(ks))
	}
	prov, perr := New(opts...)
	vfAssert(perr == nil && prov != nil, "sweep/constructor")
	vfWaitIdle()
	vfAssert(prov.connectivity.IsOnline(), "sweep/comes-online")

	// check: every one of the r nearest peers of k was sent k in (from, to]
	check := func(k mh.Multihash, from, to time.Time, label string) {
		got := log.sentTo(k, from, to)
		rep := sw.reported(from, to)
		for _, p := range vfClosest(sw.peers, string(k), r) {
			if got[p] >= 1 {
				continue
			}
			if rep[p] {
				vfAssert(false, label)
			} else {
				vfAssert(false, label+"(the missing peer was never named by a lookup of this operation)")
			}
		}
		near := vfClosest(sw.peers, string(k), sw.bucket)
		for p := range got {
			isNear := false
			for _, q := range near {
				if q == p {
					isNear = true
				}
			}
			vfAssert(isNear, "sweep/records-only-go-to-peers-the-router-reports-as-nearest")
		}
	}
	// every phase starts one (virtual) second after the previous one ended, so
	// that the windows below do not share an instant
	past := func() time.Time {
		vfAdvance(time.Second)
		return time.Now().Add(-time.Nanosecond)
	}

	kept := []mh.Multihash{}
	// the keys are interchangeable: their placements are explored as multisets
	// (non-decreasing 2-bit prefixes)
	prevBits := 0
	for i := 0; i < M; i++ {
		v := prevBits + vfChoose("key.bits", 4-prevBits)
		prevBits = v
		kept = append(kept, vfKeyWithBits(string([]byte{'0' + byte(v>>1&1), '0' + byte(v&1)}), i))
	}
	t0 := past()
	vfAssert(prov.StartProviding(false, kept...) == nil, "sweep/start-providing")
	vfWaitIdle()
	for _, k := range kept {
		check(k, t0, time.Now(), "sweep/started-key-is-advertised-to-its-r-nearest-peers")
	}

	var stopped, once []mh.Multihash
	if vfParam("FIRSTCYCLE") == 1 {
		from := past()
		vfAdvance(interval + maxDelay)
		vfWaitIdle()
		for _, k := range kept {
			check(k, from, time.Now(), "sweep/kept-key-is-readvertised-to-its-r-nearest-peers-within-interval-plus-delay")
		}
	}
	switch event {
	case 0:
	case 1: // stop providing the first key
		vfAssert(prov.StopProviding(kept[0]) == nil, "sweep/stop-providing")
		stopped = append(stopped, kept[0])
		kept = kept[1:]
		vfWaitIdle()
	case 2: // provide once
		k := vfKeyWithBits(vfBitsOf("once.bits", 2), 50)
		from := past()
		vfAssert(prov.ProvideOnce(k) == nil, "sweep/provide-once")
		vfWaitIdle()
		check(k, from, time.Now(), "sweep/provide-once-key-is-advertised-to-its-r-nearest-peers")
		once = append(once, k)
	case 3: // keys started in one region later on (possibly one that held no key so far)
		bits := vfBitsOf("later.bits", 2)
		var more []mh.Multihash
		for i := 0; i < vfParam("LATER"); i++ {
			more = append(more, vfKeyWithBits(bits, 60+i))
		}
		from := past()
		vfAssert(prov.StartProviding(false, more...) == nil, "sweep/start-providing")
		vfWaitIdle()
		for _, k := range more {
			check(k, from, time.Now(), "sweep/started-key-is-advertised-to-its-r-nearest-peers")
		}
		kept = append(kept, more...)
	case 4: // the swarm grows
		n := len(sw.peers)
		bits := vfBitsOf("newpeers.bits", 2)
		sw.mu.Lock()
		for i := 0; i < vfParam("GROW"); i++ {
			sw.peers = append(sw.peers, vfPeerWithBits(bits, n+i))
		}
		sw.mu.Unlock()
	case 5: // an outage, a key is started meanwhile, then the node is back
		sw.mu.Lock()
		sw.offline = true
		sw.mu.Unlock()
		long := vfBool("outage.longerThanOfflineDelay")
		prov.connectivity.TriggerCheck()
		vfAdvance(2 * time.Minute)
		prov.connectivity.TriggerCheck()
		if long {
			vfAdvance(offlineDelay + 10*time.Minute)
		} else {
			vfAdvance(10 * time.Minute)
		}
		vfWaitIdle()
		k := vfKeyWithBits(vfBitsOf("offlinekey.bits", 2), 70)
		vfAssert(prov.StartProviding(false, k) == nil, "sweep/start-providing-while-offline")
		kept = append(kept, k)
		vfAdvance(5 * time.Minute)
		sw.mu.Lock()
		sw.offline = false
		sw.mu.Unlock()
		// back online: everything missed is caught up within one interval (+ delay)
	case 6: // a key is queued and withdrawn again while the only burst worker is busy with a slow provide
		kSlow := vfKeyWithBits("10", 80)
		log.slowKey = string(kSlow)
		vfAssert(prov.ProvideOnce(kSlow) == nil, "sweep/provide-once")
		vfAdvance(time.Second)
		k2 := vfKeyWithBits("01", 81)
		vfAssert(prov.StartProviding(false, k2) == nil, "sweep/start-providing")
		vfAdvance(time.Second)
		vfAssert(prov.StopProviding(k2) == nil, "sweep/stop-providing")
		stopped = append(stopped, k2)
		vfAdvance(2 * time.Minute)
		vfWaitIdle()
		log.slowKey = ""
		once = append(once, kSlow)
		k3 := vfKeyWithBits(vfBitsOf("afterwards.bits", 2), 82)
		from := past()
		vfAssert(prov.ProvideOnce(k3) == nil, "sweep/provide-once")
		vfAdvance(time.Minute)
		vfWaitIdle()
		check(k3, from, time.Now(), "sweep/provide-once-key-is-advertised-to-its-r-nearest-peers")
		once = append(once, k3)
	case 7: // Close with work still queued (the burst worker is held by a slow provide), then a restart
		kSlow := vfKeyWithBits("10", 90)
		log.slowKey = string(kSlow)
		vfAssert(prov.ProvideOnce(kSlow) == nil, "sweep/provide-once")
		vfAdvance(time.Second)
		// a provide-once key: nothing but the persisted queue remembers it
		k2 := vfKeyWithBits(vfBitsOf("queued.bits", 2), 91)
		vfAssert(prov.ProvideOnce(k2) == nil, "sweep/provide-once")
		vfAdvance(time.Second)
		vfAssert(prov.Close() == nil, "sweep/close")
		vfAdvance(time.Minute)
		vfWaitIdle()
		log.slowKey = ""
		from := past()
		prov2, perr2 := New(append(opts, WithResumeCycle(true))...)
		vfAssert(perr2 == nil && prov2 != nil, "sweep/constructor-after-restart")
		prov = prov2
		vfAdvance(15 * time.Minute)
		vfWaitIdle()
		check(k2, from, time.Now(), "sweep/work-queued-at-close-is-resumed-after-a-restart")
		once = append(once, kSlow, k2)
	case 8: // peers leave: regions under a scheduled prefix fall below r peers and merge
		bits := vfBitsOf("leaving.bits", 2)
		// the sibling region holds keys too (started now)
		sib := bits[:1] + string('0'+'1'-bits[1])
		var more []mh.Multihash
		for i := 0; i < vfParam("LATER"); i++ {
			more = append(more, vfKeyWithBits(sib, 110+i))
		}
		from := past()
		vfAssert(prov.StartProviding(false, more...) == nil, "sweep/start-providing")
		vfWaitIdle()
		for _, k := range more {
			check(k, from, time.Now(), "sweep/started-key-is-advertised-to-its-r-nearest-peers")
		}
		kept = append(kept, more...)
		vfAdvance(time.Second)
		sw.mu.Lock()
		var stay []peer.ID
		for _, p := range sw.peers {
			if key.BitString(keyspace.PeerIDToBit256(p))[:2] != bits {
				stay = append(stay, p)
			}
		}
		if len(stay) >= r { // the swarm keeps at least r peers
			sw.peers = stay
		}
		sw.mu.Unlock()
	case 9: // every peer's next send fails once (a transient failure at the start of its sends)
		for _, p := range sw.peers {
			log.failNext[p] = 1
		}
		bits := vfBitsOf("later.bits", 2)
		var more []mh.Multihash
		for i := 0; i < vfParam("LATER")+2; i++ {
			more = append(more, vfKeyWithBits(bits, 100+i))
		}
		from := past()
		vfAssert(prov.StartProviding(false, more...) == nil, "sweep/start-providing")
		vfAdvance(10 * time.Minute)
		vfWaitIdle()
		for p := range log.failNext {
			log.failNext[p] = 0
		}
		for _, k := range more {
			check(k, from, time.Now(), "sweep/a-transient-failure-costs-a-peer-at-most-the-failed-record")
		}
		kept = append(kept, more...)
	}

	C := vfParam("CYCLES")
	for c := 0; c < C; c++ {
		from := past()
		vfAdvance(interval + maxDelay)
		vfWaitIdle()
		to := time.Now()
		for _, k := range kept {
			check(k, from, to, "sweep/kept-key-is-readvertised-to-its-r-nearest-peers-within-interval-plus-delay")
		}
		if c > 0 {
			for _, k := range stopped {
				vfAssert(len(log.sentTo(k, from, to)) == 0, "sweep/stopped-key-is-not-readvertised-in-later-cycles")
			}
		}
		for _, k := range once {
			vfAssert(len(log.sentTo(k, from, to)) == 0, "sweep/provide-once-key-is-not-readvertised")
		}
	}
	vfAssert(!log.badContent, "sweep/records-name-exactly-self-with-addresses")
	if vfParam("DEBUG") == 1 {
		for _, s := range log.sends {
			println("SEND key", key.BitString(keyspace.MhToBit256(mh.Multihash(s.key)))[:8], "peer", key.BitString(keyspace.PeerIDToBit256(s.to))[:8], "at", int(s.at.Sub(t0)/time.Second), "ok", s.ok)
		}
		for i, p := range sw.peers {
			println("PEER", i, key.BitString(keyspace.PeerIDToBit256(p))[:8])
		}
		prov.scheduleLk.Lock()
		for e := range keyspace.EntriesIter(prov.schedule, prov.order) {
			println("SCHEDULE", string(e.Key), int(e.Data/time.Second))
		}
		println("cursor", string(prov.scheduleCursor), "avgPrefixLen", prov.cachedAvgPrefixLen)
		prov.scheduleLk.Unlock()
	}
	vfAssert(prov.Close() == nil, "sweep/close")
	if restartKs != nil {
		vfAssert(restartKs.Close() == nil, "sweep/close") // the caller owns the keystore it supplied
	}
	vfWaitIdle()
	vfAssert(vfLiveGoroutines() == 1, "sweep/close-leaves-no-goroutine")
	vfAssert(prov.Close() == nil, "sweep/close-may-be-called-again")
	vfReach("sweep/end")
}

var _ = vfRegister("VfSweepScenario", VfSweepScenario)

// VfSweepNewFails (C14): a provider constructor that returns an error leaves
// no goroutine behind (the default keystore it may have started included).
func VfSweepNewFails() {
	vfHashReal()
	self, err := peer.Decode("12BoooooPEER")
	vfAssert(err == nil, "sweep/setup")
	sw := &vfSwarm{bucket: 3}
	log := &vfAddProviderLog{self: self, unreachable: map[peer.ID]bool{}, failNext: map[peer.ID]int{}}
	opts := []Option{WithPeerID(self), WithRouter(sw), WithMessageSender(log),
		WithSelfAddrs(func() []ma.Multiaddr { return nil }),
		WithAddLocalRecord(func(context.Context, mh.Multihash) error { return nil })}
	switch vfChoose("fault", 3) {
	case 0: // rejected only by the connectivity checker, after the default keystore was started
		opts = append(opts, WithConnectivityCheckOnlineInterval(0))
	case 1: // rejected by the option itself
		opts = append(opts, WithReplicationFactor(0))
	case 2: // a required option is missing
		opts = opts[1:]
	}
	prov, perr := New(opts...)
	vfAssert(perr != nil && prov == nil, "sweep/faulty-construction-is-an-error")
	vfWaitIdle()
	vfAssert(vfLiveGoroutines() == 1, "sweep/failed-constructor-leaves-no-goroutine")
	vfReach("sweep/new-fails-end")
}

var _ = vfRegister("VfSweepNewFails", VfSweepNewFails)
