//go:build verif

package buffered

import (
	"errors"
	"time"

	ds "github.com/ipfs/go-datastore"
	dssync "github.com/ipfs/go-datastore/sync"
	mh "github.com/multiformats/go-multihash"
)

// the buffered provider wrapper (C17 coalescing, C14 Close).

func vfBKey(i int) mh.Multihash {
	h := make([]byte, 34)
	h[0], h[1], h[2] = 0x12, 0x20, byte(i+1)
	return mh.Multihash(h)
}

// vfModelProvider: what the sweeping provider does with the operations, as far
// as their final effect is concerned.
type vfModelProvider struct {
	kept     map[string]bool
	provided map[string]int
	closed   bool
	gate     chan struct{} // when non-nil, StartProviding blocks until it is closed
	entered  int
}

func vfNewModelProvider() *vfModelProvider {
	return &vfModelProvider{kept: map[string]bool{}, provided: map[string]int{}}
}

func (p *vfModelProvider) StartProviding(force bool, keys ...mh.Multihash) error {
	p.entered++
	if p.gate != nil {
		<-p.gate
	}
	if p.closed {
		return errors.New("closed")
	}
	for _, k := range keys {
		if force || !p.kept[string(k)] {
			p.provided[string(k)]++
		}
		p.kept[string(k)] = true
	}
	return nil
}
func (p *vfModelProvider) StopProviding(keys ...mh.Multihash) error {
	if p.closed {
		return errors.New("closed")
	}
	for _, k := range keys {
		delete(p.kept, string(k))
	}
	return nil
}
func (p *vfModelProvider) ProvideOnce(keys ...mh.Multihash) error {
	if p.closed {
		return errors.New("closed")
	}
	for _, k := range keys {
		p.provided[string(k)]++
	}
	return nil
}
func (p *vfModelProvider) Clear() int             { return 0 }
func (p *vfModelProvider) RefreshSchedule() error { return nil }
func (p *vfModelProvider) Close() error           { p.closed = true; return nil }

type vfOp struct {
	op  byte
	key int
}

func vfSymOps(L, M int) []vfOp {
	n := vfChoose("nOps", L+1)
	ops := make([]vfOp, n)
	for i := range ops {
		ops[i] = vfOp{op: byte(vfChoose("op.kind", int(lastOp))), key: vfChoose("op.key", M)}
	}
	return ops
}

func vfApply(p *vfModelProvider, o vfOp) {
	k := vfBKey(o.key)
	switch o.op {
	case provideOnceOp:
		_ = p.ProvideOnce(k)
	case startProvidingOp:
		_ = p.StartProviding(false, k)
	case forceStartProvidingOp:
		_ = p.StartProviding(true, k)
	case stopProvidingOp:
		_ = p.StopProviding(k)
	}
}

// VfBufferedCoalesce (C17): one batch of queued operations, grouped by
// getOperations and executed in the worker's order, has the same final effect
// (which keys are kept for reproviding, which keys were advertised at all) as
// applying the operations one by one.
func VfBufferedCoalesce() {
	L, M := vfParam("L"), vfParam("M")
	ops := vfSymOps(L, M)
	seq := vfNewModelProvider()
	var raw [][]byte
	for _, o := range ops {
		vfApply(seq, o)
		raw = append(raw, toBytes(o.op, vfBKey(o.key)))
	}
	grouped, err := getOperations(raw)
	vfAssert(err == nil && len(grouped) == int(lastOp), "buffered/batch-parses")
	bat := vfNewModelProvider()
	if len(grouped[forceStartProvidingOp]) > 0 {
		_ = bat.StartProviding(true, grouped[forceStartProvidingOp]...)
	}
	if len(grouped[startProvidingOp]) > 0 {
		_ = bat.StartProviding(false, grouped[startProvidingOp]...)
	}
	if len(grouped[provideOnceOp]) > 0 {
		_ = bat.ProvideOnce(grouped[provideOnceOp]...)
	}
	if len(grouped[stopProvidingOp]) > 0 {
		_ = bat.StopProviding(grouped[stopProvidingOp]...)
	}
	for i := 0; i < M; i++ {
		k := string(vfBKey(i))
		vfAssert(seq.kept[k] == bat.kept[k], "buffered/same-keys-kept-for-reproviding-as-one-by-one")
		vfAssert((seq.provided[k] > 0) == (bat.provided[k] > 0), "buffered/same-keys-advertised-as-one-by-one")
	}
	vfReach("buffered/coalesce-end")
}

// VfBufferedWorker (C17, C14): the real wrapper (worker goroutine, persistent
// queue on a map datastore) fed a sequence of operations, optionally closed
// while the worker is inside the underlying provider.
func VfBufferedWorker() {
	L, M := vfParam("L"), vfParam("M")
	ops := vfSymOps(L, M)
	under := vfNewModelProvider()
	seq := vfNewModelProvider()
	closeInFlight := vfBool("closeWhileTheWorkerIsInsideTheProvider")
	if closeInFlight {
		under.gate = make(chan struct{})
	}
	b := New(under, dssync.MutexWrap(ds.NewMapDatastore()), WithBatchSize(vfParam("BATCH")), WithIdleWriteTime(time.Second))
	for _, o := range ops {
		vfApply(seq, o)
		k := vfBKey(o.key)
		var err error
		switch o.op {
		case provideOnceOp:
			err = b.ProvideOnce(k)
		case startProvidingOp:
			err = b.StartProviding(false, k)
		case forceStartProvidingOp:
			err = b.StartProviding(true, k)
		case stopProvidingOp:
			err = b.StopProviding(k)
		}
		vfAssert(err == nil, "buffered/enqueue")
	}
	if closeInFlight {
		vfWaitIdle()
		closed := false
		go func() {
			_ = b.Close()
			closed = true
		}()
		vfWaitIdle()
		close(under.gate)
		vfMustFinishWithin(400000) // a worker that spins instead of exiting is a failure, not an endless exploration
		vfAdvance(5 * time.Second)
		vfWaitIdle()
		vfFinished()
		vfAssert(closed, "buffered/close-returns-once-the-operation-in-flight-ends")
	} else {
		vfAdvance(3 * time.Second)
		vfWaitIdle()
		for i := 0; i < M; i++ {
			k := string(vfBKey(i))
			vfAssert(seq.kept[k] == under.kept[k], "buffered/same-keys-kept-for-reproviding-as-one-by-one")
			vfAssert((seq.provided[k] > 0) == (under.provided[k] > 0), "buffered/same-keys-advertised-as-one-by-one")
		}
		vfAssert(b.Close() == nil, "buffered/close")
	}
	vfAssert(under.closed, "buffered/close-closes-the-underlying-provider")
	_ = b.Close()
	vfWaitIdle()
	vfAssert(vfLiveGoroutines() == 1, "buffered/close-leaves-no-goroutine")
	vfReach("buffered/worker-end")
}

var _ = vfRegister("VfBufferedCoalesce", VfBufferedCoalesce)
var _ = vfRegister("VfBufferedWorker", VfBufferedWorker)
