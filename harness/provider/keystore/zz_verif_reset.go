//go:build verif

package keystore

import (
	"context"
	"errors"
	"strings"

	"github.com/ipfs/go-cid"
	ds "github.com/ipfs/go-datastore"
	"github.com/ipfs/go-datastore/query"
	dssync "github.com/ipfs/go-datastore/sync"
	mh "github.com/multiformats/go-multihash"
)

// vfDisk: every datastore of one keystore instance (the meta store and, in
// factory mode, the two slot stores) journalled in one global order, with
// prefix-granular durability: Sync(prefix) makes durable exactly the earlier
// writes of that store under the prefix. A crash keeps every durable write and
// a time-prefix of the others.
type vfDisk struct {
	journal []vfDEntry
	stores  map[string]ds.Batching
	ops     int
	hook    func()
}

type vfDEntry struct {
	store   string
	key     ds.Key
	val     []byte
	del     bool
	destroy bool
	durable bool
}

func vfNewDisk() *vfDisk { return &vfDisk{stores: map[string]ds.Batching{}} }

func (d *vfDisk) store(name string) ds.Batching {
	s, ok := d.stores[name]
	if !ok {
		s = dssync.MutexWrap(ds.NewMapDatastore())
		d.stores[name] = s
	}
	return s
}

type vfDiskDS struct {
	disk    *vfDisk
	name    string
	closed  bool
	queries int // result iterators not yet exhausted or closed
}

func (d *vfDisk) view(name string) *vfDiskDS { d.store(name); return &vfDiskDS{disk: d, name: name} }

func (v *vfDiskDS) tick() {
	vfAssert(!v.closed, "datastore/not-used-after-it-was-closed")
	v.disk.ops++
	if v.disk.hook != nil {
		v.disk.hook()
	}
}

func (v *vfDiskDS) inner() ds.Batching { return v.disk.store(v.name) }

func (v *vfDiskDS) Get(ctx context.Context, k ds.Key) ([]byte, error) {
	v.tick()
	return v.inner().Get(ctx, k)
}
func (v *vfDiskDS) Has(ctx context.Context, k ds.Key) (bool, error) {
	v.tick()
	return v.inner().Has(ctx, k)
}
func (v *vfDiskDS) GetSize(ctx context.Context, k ds.Key) (int, error) {
	v.tick()
	return v.inner().GetSize(ctx, k)
}
func (v *vfDiskDS) Query(ctx context.Context, q query.Query) (query.Results, error) {
	v.tick()
	if err := ctx.Err(); err != nil {
		return nil, err
	}
	if len(q.Orders) == 0 {
		q.Orders = []query.Order{query.OrderByKey{}}
	}
	res, err := v.inner().Query(ctx, q)
	if err != nil {
		return nil, err
	}
	// a real store reads lazily: the iterator must not outlive the store
	v.queries++
	open := true
	done := func() {
		if open {
			open = false
			v.queries--
		}
	}
	return query.ResultsFromIterator(q, query.Iterator{
		Next: func() (query.Result, bool) {
			v.tick() // an event may land in the middle of a scan
			r, ok := res.NextSync()
			if !ok {
				done()
			}
			return r, ok
		},
		Close: func() error {
			done()
			return res.Close()
		},
	}), nil
}
func (v *vfDiskDS) Put(ctx context.Context, k ds.Key, val []byte) error {
	v.tick()
	if err := ctx.Err(); err != nil {
		return err
	}
	v.disk.journal = append(v.disk.journal, vfDEntry{store: v.name, key: k, val: append([]byte{}, val...)})
	return v.inner().Put(ctx, k, val)
}
func (v *vfDiskDS) Delete(ctx context.Context, k ds.Key) error {
	v.tick()
	if err := ctx.Err(); err != nil {
		return err
	}
	v.disk.journal = append(v.disk.journal, vfDEntry{store: v.name, key: k, del: true})
	return v.inner().Delete(ctx, k)
}
func (v *vfDiskDS) Sync(ctx context.Context, prefix ds.Key) error {
	v.tick()
	if err := ctx.Err(); err != nil {
		return err
	}
	p := prefix.String()
	for i := range v.disk.journal {
		e := &v.disk.journal[i]
		if e.store != v.name || e.destroy {
			continue
		}
		ks := e.key.String()
		if p == "/" || ks == p || strings.HasPrefix(ks, p+"/") {
			e.durable = true
		}
	}
	return nil
}
func (v *vfDiskDS) Close() error {
	vfAssert(v.queries == 0, "datastore/not-closed-under-a-running-query")
	v.closed = true
	return nil
}
func (v *vfDiskDS) Batch(ctx context.Context) (ds.Batch, error) { return ds.NewBasicBatch(v), nil }

func (d *vfDisk) destroy(name string) {
	d.journal = append(d.journal, vfDEntry{store: name, destroy: true})
	d.stores[name] = dssync.MutexWrap(ds.NewMapDatastore())
}

// crashed: what is found on disk after a crash that happened when the journal
// had cut entries.
func (d *vfDisk) crashed(cut int) *vfDisk {
	out := vfNewDisk()
	ctx := context.Background()
	for i, e := range d.journal {
		if i >= cut && !e.durable {
			continue
		}
		switch {
		case e.destroy:
			out.stores[e.store] = dssync.MutexWrap(ds.NewMapDatastore())
		case e.del:
			_ = out.store(e.store).Delete(ctx, e.key)
		default:
			_ = out.store(e.store).Put(ctx, e.key, e.val)
		}
	}
	return out
}

func vfOpenResettable(d *vfDisk, factory bool) *ResettableKeystore {
	opts := []ResettableKeystoreOption{KeystoreOption(WithPrefixBits(8), WithBatchSize(2)), WithResetBufferCapacity(2)}
	if factory {
		opts = append(opts, WithDatastoreFactory(
			func(name string) (ds.Batching, error) { return d.view("slot" + name), nil },
			func(name string) error { d.destroy("slot" + name); return nil }))
	}
	ks, err := NewResettableKeystore(d.view("meta"), opts...)
	vfAssert(err == nil && ks != nil, "reset/keystore-opens")
	return ks
}

// VfKeystoreReset (C20 reset atomicity, C14 Close during a reset): one reset
// replacing {k0} by a new set, with one concurrent event (a Put, cancellation
// of the reset, or Close) placed at an arbitrary datastore operation, then a
// clean restart or a crash at an arbitrary write.
func VfKeystoreReset()        { vfKeystoreReset(false) }
func VfKeystoreResetFactory() { vfKeystoreReset(true) }

func vfKeystoreReset(factory bool) {
	vfHashBits(vfParam("W"))
	vfHashFixed()
	ctx := context.Background()
	disk := vfNewDisk()
	ks := vfOpenResettable(disk, factory)
	all := []mh.Multihash{vfMh(0), vfMh(1), vfMh(2)}
	got, err := ks.Put(ctx, all[0])
	vfAssert(err == nil && len(got) == 1, "reset/setup")
	oldSet := []bool{true, false, false}
	newSet := []bool{vfBool("newSetKeepsOldKey"), true, false}
	n0 := len(disk.journal)

	ev := vfChoose("event", 4) // 0 none, 1 a concurrent Put, 2 the reset's context is cancelled, 3 Close
	evAt := 0
	cIdx := 2
	if ev != 0 {
		evAt = 8*vfChoose("eventAtDatastoreOp/8", (vfParam("MAXOPS")+7)/8) + vfChoose("eventAtDatastoreOp%8", 8)
	}
	putTwice, putAll := false, false
	if ev == 1 {
		cIdx = vfChoose("putKey", 3)
		putTwice = vfBool("putNamesTheKeyTwice")
		if !putTwice {
			putAll = vfBool("putNamesAllThreeKeys")
		}
	}
	rctx, rcancel := context.WithCancel(ctx)
	defer rcancel()
	base := disk.ops
	fired := false
	putAckedAt, closeReturned := -1, false
	var putErr, closeErr error
	// a second Put (all three keys: more than the buffer holds) some operations
	// after the first one, so that it can land after the last drain of the reset
	secondAt, secondFired := -1, false
	waiting := false // a hook is letting its event run (only one at a time)
	var secondErr error
	secondAcked := false
	if ev == 1 && !putTwice && !putAll && vfBool("aSecondPutOfAllThreeKeysFollows") {
		secondAt = evAt + 1 + vfChoose("secondPutAfterOps", 12)
	}
	disk.hook = func() {
		if secondAt >= 0 && !secondFired && fired && !waiting && disk.ops-base >= secondAt+1 {
			secondFired = true
			go func() {
				_, secondErr = ks.Put(ctx, all[0], all[1], all[2])
				secondAcked = secondErr == nil
			}()
			waiting = true
			vfWaitIdle()
			waiting = false
			return
		}
		if ev == 0 || fired || disk.ops-base != evAt+1 {
			return
		}
		fired = true
		switch ev {
		case 1:
			go func() {
				if putAll {
					// more keys than the reset buffer holds: the worker has to wait for room
					_, putErr = ks.Put(ctx, all[0], all[1], all[2])
				} else if putTwice {
					_, putErr = ks.Put(ctx, all[cIdx], all[cIdx])
				} else {
					_, putErr = ks.Put(ctx, all[cIdx])
				}
				if putErr == nil {
					putAckedAt = len(disk.journal)
				}
			}()
		case 2:
			rcancel()
		case 3:
			go func() {
				closeErr = ks.Close()
				closeReturned = true
			}()
		}
		waiting = true
		vfWaitIdle() // the event runs until it blocks or finishes
		waiting = false
	}
	ch := make(chan cid.Cid, 3)
	for i, in := range newSet {
		if in {
			ch <- cid.NewCidV1(cid.Raw, all[i])
		}
	}
	close(ch)
	resetErr := ks.ResetCids(rctx, ch)
	vfWaitIdle()
	disk.hook = nil
	if ev != 0 && !fired {
		_ = ks.Close() // (a native replay must not leave the worker behind)
		return         // the chosen operation index lies beyond this run: same as "no event"
	}
	if secondAt >= 0 && !secondFired {
		_ = ks.Close()
		return
	}
	vfAssert(secondErr == nil, "reset/concurrent-put-succeeds")
	if ev == 0 {
		// unwinding check: every datastore operation of the reset was a candidate position
		vfAssert(disk.ops-base <= 8*((vfParam("MAXOPS")+7)/8), "bound/MAXOPS-covers-every-datastore-operation-of-the-reset")
	}
	vfAssert(putErr == nil, "reset/concurrent-put-succeeds")
	vfAssert(closeErr == nil, "reset/close-during-reset-no-error")
	if ev == 3 {
		vfAssert(closeReturned, "reset/close-during-reset-returns")
		vfAssert(vfLiveGoroutines() == 1, "reset/close-returns-after-worker-and-reset-writes-ended")
	} else if ev != 2 {
		vfAssert(resetErr == nil, "reset/uninterrupted-reset-succeeds")
	}
	if ev == 2 {
		vfAssert(resetErr == nil || errors.Is(resetErr, context.Canceled), "reset/cancelled-reset-error")
	}
	withPut := func(set []bool, acked bool) []bool {
		out := append([]bool{}, set...)
		if acked {
			out[cIdx] = true
			if putAll {
				out[0], out[1], out[2] = true, true, true
			}
		}
		if secondAcked {
			// acknowledged before anything checked below happens (crashes are not
			// combined with a second put)
			out[0], out[1], out[2] = true, true, true
		}
		return out
	}
	same := func(gotKeys []mh.Multihash, want []bool) bool {
		cnt := make([]int, len(all))
		for _, h := range gotKeys {
			i := vfIndex(all, h)
			if i < 0 {
				return false
			}
			cnt[i]++
		}
		for i := range all {
			w := 0
			if want[i] {
				w = 1
			}
			if cnt[i] != w {
				return false
			}
		}
		return true
	}
	acked := putAckedAt >= 0
	if ev != 3 {
		// the live keystore
		keys, gerr := ks.Get(ctx, "")
		sz, serr := ks.Size(ctx)
		vfAssert(gerr == nil && serr == nil, "reset/live-get-no-error")
		if ev == 2 && resetErr == nil {
			// cancelled after the last phase: the swap may have been abandoned
			vfAssert(same(keys, withPut(newSet, acked)) || same(keys, withPut(oldSet, acked)), "reset/after-late-cancellation-holds-the-complete-previous-or-new-set")
		} else if resetErr == nil {
			vfAssert(same(keys, withPut(newSet, acked)), "reset/after-completion-holds-exactly-the-new-set-plus-acknowledged-puts")
		} else {
			vfAssert(same(keys, withPut(oldSet, acked)), "reset/after-cancellation-holds-exactly-the-previous-set-plus-acknowledged-puts")
		}
		vfAssert(sz == len(keys), "reset/size-matches")
	}
	L := len(disk.journal)
	if secondAt < 0 && vfBool("crash") {
		cut := n0 + vfChoose("crash.cut", L-n0+1)
		d2 := disk.crashed(cut)
		ks2 := vfOpenResettable(d2, factory)
		keys, gerr := ks2.Get(ctx, "")
		sz, serr := ks2.Size(ctx)
		vfAssert(gerr == nil && serr == nil, "reset/crash-get-no-error")
		mustHavePut := acked && putAckedAt <= cut
		ok := false
		for _, base := range [][]bool{oldSet, newSet} {
			if same(keys, withPut(base, true)) || (!mustHavePut && same(keys, base)) {
				ok = true
			}
		}
		vfAssert(ok, "reset/after-a-crash-holds-the-complete-previous-or-the-complete-new-set-with-acknowledged-puts")
		vfAssert(sz == len(keys), "reset/crash-size-matches")
		vfAssert(ks2.Close() == nil, "reset/close")
		_ = ks.Close()
	} else {
		if ev != 3 {
			vfAssert(ks.Close() == nil, "reset/close")
		}
		vfAssert(ks.Close() == nil, "reset/close-may-be-called-again")
		ks2 := vfOpenResettable(disk, factory)
		keys, gerr := ks2.Get(ctx, "")
		sz, serr := ks2.Size(ctx)
		vfAssert(gerr == nil && serr == nil, "reset/restart-get-no-error")
		if ev == 3 {
			ok := same(keys, withPut(oldSet, false)) || same(keys, withPut(newSet, false))
			vfAssert(ok, "reset/after-close-holds-the-complete-previous-or-the-complete-new-set")
			if resetErr == nil {
				vfAssert(same(keys, newSet), "reset/successful-reset-survives-close")
			}
		} else if ev == 2 && resetErr == nil {
			vfAssert(same(keys, withPut(newSet, acked)) || same(keys, withPut(oldSet, acked)), "reset/restart-after-late-cancellation-holds-the-complete-previous-or-new-set")
		} else if resetErr == nil {
			vfAssert(same(keys, withPut(newSet, acked)), "reset/restart-holds-the-new-set-plus-acknowledged-puts")
		} else {
			vfAssert(same(keys, withPut(oldSet, acked)), "reset/restart-holds-the-previous-set-plus-acknowledged-puts")
		}
		vfAssert(sz == len(keys), "reset/restart-size-matches")
		vfAssert(ks2.Close() == nil, "reset/close")
	}
	vfWaitIdle()
	vfAssert(vfLiveGoroutines() == 1, "reset/no-goroutine-left")
	vfReach("reset/end")
}

var _ = vfRegister("VfKeystoreReset", VfKeystoreReset)
var _ = vfRegister("VfKeystoreResetFactory", VfKeystoreResetFactory)
