//go:build verif

package keystore

import (
	"context"
	"errors"
	"strconv"

	ds "github.com/ipfs/go-datastore"
	"github.com/ipfs/go-datastore/query"
	dssync "github.com/ipfs/go-datastore/sync"
	"github.com/ipfs/go-libdht/kad/key/bitstr"
	mh "github.com/multiformats/go-multihash"

	"github.com/libp2p/go-libp2p-kad-dht/provider/internal/keyspace"
)

// vfJournalDS: a Batching datastore that journals every committed write and
// every Sync, so that a crash can be simulated by rebuilding from a prefix.
type vfJournalDS struct {
	inner   ds.Batching
	journal []vfEntry
	synced  int // journal length at the last Sync
	// failDeleteIn: when > 0, counts down on every Delete; the Delete that brings
	// it to 0 fails (an I/O error in the middle of a multi-batch operation)
	failDeleteIn int
}

type vfEntry struct {
	key ds.Key
	val []byte
	del bool
}

func vfNewJournalDS() *vfJournalDS {
	return &vfJournalDS{inner: dssync.MutexWrap(ds.NewMapDatastore())}
}

func (d *vfJournalDS) Get(ctx context.Context, k ds.Key) ([]byte, error) { return d.inner.Get(ctx, k) }
func (d *vfJournalDS) Has(ctx context.Context, k ds.Key) (bool, error)   { return d.inner.Has(ctx, k) }
func (d *vfJournalDS) GetSize(ctx context.Context, k ds.Key) (int, error) {
	return d.inner.GetSize(ctx, k)
}
func (d *vfJournalDS) Query(ctx context.Context, q query.Query) (query.Results, error) {
	if len(q.Orders) == 0 {
		q.Orders = []query.Order{query.OrderByKey{}} // deterministic result order (any order is allowed by the contract)
	}
	return d.inner.Query(ctx, q)
}
func (d *vfJournalDS) Put(ctx context.Context, k ds.Key, v []byte) error {
	d.journal = append(d.journal, vfEntry{key: k, val: append([]byte{}, v...)})
	return d.inner.Put(ctx, k, v)
}
func (d *vfJournalDS) Delete(ctx context.Context, k ds.Key) error {
	if d.failDeleteIn > 0 {
		d.failDeleteIn--
		if d.failDeleteIn == 0 {
			return errors.New("datastore write failed")
		}
	}
	d.journal = append(d.journal, vfEntry{key: k, del: true})
	return d.inner.Delete(ctx, k)
}
func (d *vfJournalDS) Sync(ctx context.Context, k ds.Key) error {
	d.synced = len(d.journal)
	return d.inner.Sync(ctx, k)
}
func (d *vfJournalDS) Close() error                               { return nil }
func (d *vfJournalDS) Batch(ctx context.Context) (ds.Batch, error) { return ds.NewBasicBatch(d), nil }

// vfRebuild returns the datastore as it would be found after a crash that
// kept the first n journal entries.
func (d *vfJournalDS) vfRebuild(n int) *vfJournalDS {
	out := vfNewJournalDS()
	ctx := context.Background()
	for _, e := range d.journal[:n] {
		if e.del {
			_ = out.inner.Delete(ctx, e.key)
		} else {
			_ = out.inner.Put(ctx, e.key, e.val)
		}
	}
	return out
}

func vfMh(i int) mh.Multihash {
	return mh.Multihash(vfHashInput("mh"+strconv.Itoa(i), []byte{0x12, 0x20}, 32))
}

// vfPrefixNear returns a prefix around the identifier of one of the keys: its
// first l bits (l around the prefixBits=8 boundary), optionally with the last
// bit flipped, so that matching and non-matching, short and long prefixes occur.
func vfPrefixNear(name string, all []mh.Multihash) bitstr.Key {
	h := all[vfChoose(name+".of", len(all))]
	lens := []int{0, 1, 9}
	l := lens[vfChoose(name+".len", len(lens))]
	k := keyspace.MhToBit256(h)
	b := make([]byte, l)
	for i := range b {
		b[i] = byte('0' + k.Bit(i))
	}
	if l > 0 && vfBool(name+".flipLast") {
		b[l-1] = '0' + '1' - b[l-1]
	}
	return bitstr.Key(string(b))
}

func vfMatches(p bitstr.Key, h mh.Multihash) bool {
	return keyspace.IsPrefix(p, keyspace.MhToBit256(h))
}

func vfIndex(all []mh.Multihash, h mh.Multihash) int {
	for i, x := range all {
		if string(x) == string(h) {
			return i
		}
	}
	return -1
}

// vfSameSet: got is exactly the keys i with want[i], each once.
func vfSameSet(got []mh.Multihash, all []mh.Multihash, want []bool, label string) {
	cnt := make([]int, len(all))
	for _, h := range got {
		i := vfIndex(all, h)
		vfAssert(i >= 0, label+"/only-stored-keys")
		if i >= 0 {
			cnt[i]++
		}
	}
	for i := range all {
		w := 0
		if want[i] {
			w = 1
		}
		vfAssert(cnt[i] == w, label)
	}
}

// VfKeystoreHistory (C20): histories of keystore operations against a set
// model, followed by a clean restart and by a crash that loses unsynced writes.
func VfKeystoreHistory() {
	M, K := vfParam("M"), vfParam("K")
	vfHashBits(vfParam("W"))
	vfHashConcrete()
	ctx := context.Background()
	d := vfNewJournalDS()
	prefixBits := 8 * vfChoose("prefixBitsDiv8", 2) // 0: every prefix is "long"; 8: the default-style bucket path
	open := func(dd *vfJournalDS) Keystore {
		ks, err := NewKeystore(dd, WithPrefixBits(prefixBits), WithBatchSize(1))
		vfAssert(err == nil && ks != nil, "keystore/opens")
		return ks
	}
	ks := open(d)
	all := make([]mh.Multihash, M)
	for i := range all {
		all[i] = vfMh(i)
	}
	in := make([]bool, M)
	ackedAtSync := make([]bool, M) // model content at the time of the last Sync

	for step := 0; step < K; step++ {
		op := vfChoose("op", 7)
		if step < vfParam("WARMUP") {
			op = 0
		}
		switch op {
		case 0: // Put(1..2 keys, possibly the same key twice)
			i := vfChoose("put.key", M)
			keys := []mh.Multihash{all[i]}
			sel := []int{i}
			if vfBool("put.two") {
				j := vfChoose("put.second", M)
				keys = append(keys, all[j])
				sel = append(sel, j)
			}
			got, err := ks.Put(ctx, keys...)
			vfAssert(err == nil, "put/no-error")
			want := make([]bool, M)
			for _, x := range sel {
				if !in[x] {
					want[x] = true
				}
			}
			vfSameSet(got, all, want, "put/returns-exactly-the-keys-not-already-stored")
			for _, x := range sel {
				in[x] = true
			}
		case 1: // Get(prefix), incl. prefixes longer than prefixBits
			p := vfPrefixNear("get", all)
			got, err := ks.Get(ctx, p)
			vfAssert(err == nil, "get/no-error")
			want := make([]bool, M)
			for i := range all {
				want[i] = in[i] && vfMatches(p, all[i])
			}
			vfSameSet(got, all, want, "get/returns-exactly-the-stored-keys-under-the-prefix")
		case 2: // CountKeysUpTo
			p := vfPrefixNear("cnt", all)
			limit := vfChoose("cnt.limit", 2)
			n, err := ks.CountKeysUpTo(ctx, p, limit)
			vfAssert(err == nil, "count/no-error")
			c := 0
			for i := range all {
				if in[i] && vfMatches(p, all[i]) {
					c++
				}
			}
			if limit > 0 && c > limit {
				c = limit
			}
			vfAssert(n == c, "count/equals-min(limit,matching-stored-keys)")
		case 3: // ContainsPrefix
			p := vfPrefixNear("has", all)
			found, err := ks.ContainsPrefix(ctx, p)
			vfAssert(err == nil, "contains/no-error")
			any := false
			for i := range all {
				if in[i] && vfMatches(p, all[i]) {
					any = true
				}
			}
			vfAssert(found == any, "contains/true-iff-a-stored-key-has-the-prefix")
		case 4: // Delete
			i := vfChoose("del.key", M)
			keys := []mh.Multihash{all[i]}
			if vfBool("del.twice") {
				keys = append(keys, all[i])
			}
			vfAssert(ks.Delete(ctx, keys...) == nil, "delete/no-error")
			in[i] = false
		case 5: // Empty, possibly failing part-way (batch size 1: one commit per key)
			if vfBool("empty.datastoreFailsPartWay") {
				d.failDeleteIn = 1 + vfChoose("empty.failingDelete", M)
				err := ks.Empty(ctx)
				armed := d.failDeleteIn > 0
				d.failDeleteIn = 0
				if !armed {
					vfAssert(err != nil, "empty/reports-the-datastore-failure")
				}
				// whatever subset was deleted, the keystore must agree with itself
				got, gerr := ks.Get(ctx, "")
				vfAssert(gerr == nil, "get/no-error")
				for i := range in {
					still := vfIndex(got, all[i]) >= 0
					vfAssert(!still || in[i], "empty/a-failed-empty-adds-nothing")
					in[i] = still
				}
			} else {
				vfAssert(ks.Empty(ctx) == nil, "empty/no-error")
				for i := range in {
					in[i] = false
				}
			}
		case 6: // Size only
		}
		n := 0
		for i := range in {
			if in[i] {
				n++
			}
		}
		sz, err := ks.Size(ctx)
		vfAssert(err == nil && sz == n, "size/equals-number-of-stored-keys")
		if d.synced == len(d.journal) {
			copy(ackedAtSync, in)
		}
	}
	n := 0
	for i := range in {
		if in[i] {
			n++
		}
	}
	if vfBool("crash") {
		// crash: an arbitrary tail of the unsynced writes is lost
		keep := d.synced + vfChoose("crash.keepUnsynced", len(d.journal)-d.synced+1)
		d2 := d.vfRebuild(keep)
		ks2 := open(d2)
		got, err := ks2.Get(ctx, "")
		vfAssert(err == nil, "crash/get-no-error")
		sz, _ := ks2.Size(ctx)
		vfAssert(sz == len(got), "crash/size-matches-stored-keys-after-reopen")
		if keep == len(d.journal) {
			vfSameSet(got, all, in, "crash/every-acknowledged-key-present-after-reopen")
		}
		for _, h := range got {
			vfAssert(vfIndex(all, h) >= 0, "crash/size-entry-never-returned-as-a-key")
		}
		vfAssert(ks2.Close() == nil, "close/no-error")
		_ = ks.Close()
	} else {
		vfAssert(ks.Close() == nil, "close/no-error")
		vfAssert(ks.Close() == nil, "close/may-be-called-again")
		ks2 := open(d)
		sz, err := ks2.Size(ctx)
		vfAssert(err == nil && sz == n, "restart/size-survives-clean-restart")
		got, gerr := ks2.Get(ctx, "")
		vfAssert(gerr == nil, "restart/get-no-error")
		vfSameSet(got, all, in, "restart/same-keys-after-clean-restart")
		vfAssert(ks2.Close() == nil, "close/no-error")
	}
	vfWaitIdle()
	vfAssert(vfLiveGoroutines() == 1, "close/worker-exited")
	vfReach("keystore/end")
}

var _ = vfRegister("VfKeystoreHistory", VfKeystoreHistory)
