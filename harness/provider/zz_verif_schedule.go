//go:build verif

package provider

import (
	"time"

	"github.com/ipfs/go-libdht/kad/key/bit256"
	"github.com/ipfs/go-libdht/kad/key/bitstr"
)

func vfOrderKey() bit256.Key {
	b := make([]byte, 32)
	for i := range b {
		b[i] = 0xa5
	}
	return bit256.NewKey(b)
}

func vfSymBits(name string, l int) bitstr.Key {
	b := make([]byte, l)
	for i := range b {
		b[i] = vfIte(vfBool(name+".bit"), byte('1'), byte('0'))
	}
	return bitstr.Key(string(b))
}

// VfReprovideTimeForPrefix (C17-H1): every scheduled offset lies in
// [0, interval), for every prefix up to (and beyond) the maximum prefix size.
func VfReprovideTimeForPrefix() {
	s := &SweepingProvider{order: vfOrderKey()}
	ivs := []time.Duration{22 * time.Hour, time.Hour, 48 * time.Hour, time.Nanosecond, 12345678912345 * time.Nanosecond}
	s.reprovideInterval = ivs[vfChoose("interval", vfParam("NIV"))]
	l := vfChoose("prefixLen", vfParam("MAXLEN")+1)
	prefix := vfSymBits("prefix", l)
	off := s.reprovideTimeForPrefix(prefix)
	vfAssert(vfAnd(off >= 0, off < s.reprovideInterval), "schedule/offset-within-[0,interval)")
	if l == 0 {
		vfAssert(off == 0, "schedule/empty-prefix-at-cycle-start")
	}
	// two prefixes of the same length that differ are never scheduled closer than
	// the slot width allows to go wrong: the offset is monotone in the XORed value
	other := vfSymBits("other", l)
	off2 := s.reprovideTimeForPrefix(other)
	if l > 0 && l <= vfParam("MONO") {
		vfAssert(vfImplies(vfXorLess(prefix, other, s), off <= off2), "schedule/offsets-follow-the-xor-order")
	}
	vfReach("schedule/end")
}

// VfTimeArithmetic (C17-H1): the alarm set for a region fires at that region's
// offset and never later than one interval ahead.
func VfTimeArithmetic() {
	s := &SweepingProvider{}
	iv := time.Duration(vfRange("intervalNs", 1, int(48*time.Hour)))
	s.reprovideInterval = iv
	from := time.Duration(vfI64("from"))
	to := time.Duration(vfI64("to"))
	vfAssume(vfAnd(vfAnd(from >= 0, from < iv), vfAnd(to >= 0, to < iv)))
	d := s.timeBetween(from, to)
	vfAssert(vfAnd(d >= 1, d <= iv), "time/between-in-[1,interval]")
	vfAssert((from+d-to)%iv == 0, "time/alarm-lands-on-the-region-offset")
	// timeOffset of an instant not before the cycle start lies in [0, interval)
	s.cycleStart = time.Unix(0, 946684800000000000)
	elapsed := vfI64("elapsedNs")
	vfAssume(vfAnd(elapsed >= 0, elapsed < int64(1)<<61))
	o := s.timeOffset(s.cycleStart.Add(time.Duration(elapsed)))
	vfAssert(vfAnd(o >= 0, o < iv), "time/offset-in-[0,interval)")
	vfReach("time/end")
}

var _ = vfRegister("VfReprovideTimeForPrefix", VfReprovideTimeForPrefix)
var _ = vfRegister("VfTimeArithmetic", VfTimeArithmetic)

// vfXorLess: (a xor order) < (b xor order) as binary numbers, without forking.
func vfXorLess(a, b bitstr.Key, s *SweepingProvider) bool {
	lt := false
	eq := true
	for i := 0; i < len(a); i++ {
		ob := byte('0' + s.order.Bit(i))
		xa, xb := a[i] != ob, b[i] != ob
		lt = vfOr(lt, vfAnd(eq, vfAnd(!xa, xb)))
		eq = vfAnd(eq, xa == xb)
	}
	return lt
}
