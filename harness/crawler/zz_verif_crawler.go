//go:build verif

package crawler

import (
	"context"
	"errors"
	"strconv"
	"time"

	"github.com/libp2p/go-libp2p/core/host"
	"github.com/libp2p/go-libp2p/core/peer"
	"github.com/libp2p/go-libp2p/core/peerstore"
	ma "github.com/multiformats/go-multiaddr"
)

type vfHost struct {
	host.Host
	ps *vfPstore
}

type vfPstore struct{ peerstore.Peerstore }

func (*vfPstore) Addrs(peer.ID) []ma.Multiaddr { return nil }
func (h *vfHost) Peerstore() peerstore.Peerstore { return h.ps }

// the symbolic topology: decided lazily when a peer is queried
var (
	vfPeers   []peer.ID
	vfFails   map[peer.ID]bool
	vfKnows   map[peer.ID][]int
	vfQueried map[peer.ID]int
)

func vfAddrOf(i int) ma.Multiaddr {
	a, err := ma.NewMultiaddrBytes([]byte{4, 10, 0, 0, byte(i + 1), 6, 0x0f, 0xa1})
	if err != nil {
		panic(err)
	}
	return a
}

func vfModelQueryPeer(c *DefaultCrawler, ctx context.Context, next peer.AddrInfo) *queryResult {
	vfYield("crawl-rpc")
	vfQueried[next.ID]++
	if _, ok := vfFails[next.ID]; !ok {
		vfFails[next.ID] = vfBool("peer.fails")
		if !vfFails[next.ID] {
			for j := range vfPeers {
				if vfBool("peer.knows") {
					vfKnows[next.ID] = append(vfKnows[next.ID], j)
				}
			}
		}
	}
	if vfFails[next.ID] {
		return &queryResult{next.ID, nil, errors.New("query failed")}
	}
	data := map[peer.ID]*peer.AddrInfo{}
	for _, j := range vfKnows[next.ID] {
		data[vfPeers[j]] = &peer.AddrInfo{ID: vfPeers[j], Addrs: []ma.Multiaddr{vfAddrOf(j)}}
	}
	return &queryResult{next.ID, data, nil}
}

//verif:intercept VfCrawl (*github.com/libp2p/go-libp2p-kad-dht/crawler.DefaultCrawler).queryPeer = vfModelQueryPeer

// VfCrawl (C16-H3): the crawl work list over an arbitrary topology.
func VfCrawl() {
	N := vfParam("N")
	vfSchedBudget(vfParam("SWITCH"))
	vfPeers = make([]peer.ID, N)
	for i := range vfPeers {
		vfPeers[i] = peer.ID("peer-" + strconv.Itoa(i))
	}
	vfFails, vfKnows, vfQueried = map[peer.ID]bool{}, map[peer.ID][]int{}, map[peer.ID]int{}
	c := &DefaultCrawler{parallelism: 1 + vfChoose("parallelism", 2), connectTimeout: time.Second, queryTimeout: time.Second, host: &vfHost{ps: &vfPstore{}}}
	nSeeds := 1 + vfChoose("nSeeds", 2)
	var seeds []*peer.AddrInfo
	seedHasAddrs := map[peer.ID]bool{}
	for i := 0; i < nSeeds && i < N; i++ {
		// a seed may be known by ID only (no address here or in the peerstore): it
		// is skipped as a starting point but crawled if somebody names it
		ai := &peer.AddrInfo{ID: vfPeers[i]}
		if i > 0 && vfBool("seed.repeatsTheFirstSeed") {
			// the caller's seed list names a peer twice (found peers + bootstrap peers overlap)
			ai = &peer.AddrInfo{ID: vfPeers[0]}
		}
		if vfBool("seed.hasAddrs") {
			ai.Addrs = []ma.Multiaddr{vfAddrOf(i)}
			if ai.ID == vfPeers[0] {
				ai.Addrs = []ma.Multiaddr{vfAddrOf(0)}
			}
			seedHasAddrs[ai.ID] = true
		}
		seeds = append(seeds, ai)
	}
	succ, fail := map[peer.ID]int{}, map[peer.ID]int{}
	c.Run(context.Background(), seeds,
		func(p peer.ID, _ []*peer.AddrInfo) { succ[p]++ },
		func(p peer.ID, _ error) { fail[p]++ })
	// reachability from the seeds through peers that answered
	reach := map[peer.ID]bool{}
	var work []peer.ID
	for _, s := range seeds {
		if seedHasAddrs[s.ID] {
			reach[s.ID] = true
			work = append(work, s.ID)
		}
	}
	for len(work) > 0 {
		p := work[0]
		work = work[1:]
		if vfFails[p] {
			continue
		}
		for _, j := range vfKnows[p] {
			if !reach[vfPeers[j]] {
				reach[vfPeers[j]] = true
				work = append(work, vfPeers[j])
			}
		}
	}
	for _, p := range vfPeers {
		if reach[p] {
			vfAssert(vfQueried[p] == 1, "crawl/every-reachable-peer-is-queried-exactly-once")
			vfAssert(succ[p]+fail[p] == 1, "crawl/exactly-one-outcome-per-queried-peer")
		} else {
			vfAssert(vfQueried[p] == 0 && succ[p]+fail[p] == 0, "crawl/unreachable-peers-are-not-queried")
		}
	}
	vfWaitIdle()
	vfAssert(vfLiveGoroutines() == 1, "crawl/returns-with-no-live-worker")
	vfReach("crawl/end")
}

var _ = vfRegister("VfCrawl", VfCrawl)
