//go:build verif

package rtrefresh

import (
	"context"
	"errors"
	"strconv"
	"time"

	"github.com/libp2p/go-libp2p/core/host"
	"github.com/libp2p/go-libp2p/core/peer"
	"github.com/libp2p/go-libp2p/core/peerstore"

	kbucket "github.com/libp2p/go-libp2p-kbucket"
)

type vfHost struct {
	host.Host
	id          peer.ID
	connectFail map[peer.ID]bool
	hangs       map[peer.ID]bool // the dial never completes: it ends with its context
	slow        bool
}

func (h *vfHost) ID() peer.ID { return h.id }
func (h *vfHost) Connect(ctx context.Context, pi peer.AddrInfo) error {
	if h.hangs[pi.ID] {
		<-ctx.Done()
		return ctx.Err()
	}
	if h.slow {
		vfAdvance(time.Millisecond) // dialing takes (virtual) time
	}
	if ctx.Err() != nil {
		return ctx.Err()
	}
	if h.connectFail[pi.ID] {
		return errors.New("dial failed")
	}
	return nil
}

type vfMetrics struct{ peerstore.Metrics }

func (vfMetrics) LatencyEWMA(peer.ID) time.Duration   { return 0 }
func (vfMetrics) RecordLatency(peer.ID, time.Duration) {}
func (vfMetrics) RemovePeer(peer.ID)                   {}

// VfRefresh (C12-H4/H5): the liveness probe of a refresh evicts exactly the
// stale members whose connect or ping failed, and every refresh request gets
// an answer, also when the manager is closing.
func VfRefresh() {
	N := vfParam("N")
	vfHashBits(vfParam("W"))
	self := peer.ID(vfHashInput("self", nil, 8))
	h := &vfHost{id: self, connectFail: map[peer.ID]bool{}, hangs: map[peer.ID]bool{}}
	rt, err := kbucket.NewRoutingTable(4, kbucket.ConvertPeerID(self), time.Minute, vfMetrics{}, time.Hour, nil)
	vfAssert(err == nil, "refresh/setup")
	grace := 10 * time.Minute
	n := vfChoose("members", N+1)
	ids := make([]peer.ID, n)
	stale := make([]bool, n)
	pingFail := map[peer.ID]bool{}
	for i := range ids {
		ids[i] = peer.ID(vfHashInput("p"+strconv.Itoa(i), nil, 8))
		rt.TryAddPeer(ids[i], true, false)
	}
	// age some members beyond the grace period
	vfAdvance(time.Hour)
	for i := range ids {
		stale[i] = vfBool("member.stale")
		if !stale[i] {
			rt.UpdateLastSuccessfulOutboundQueryAt(ids[i], time.Now())
		}
		h.connectFail[ids[i]] = vfBool("member.connectFails")
		pingFail[ids[i]] = vfBool("member.pingFails")
		if vfParam("HANG") == 1 && stale[i] && !h.connectFail[ids[i]] {
			h.hangs[ids[i]] = vfBool("member.dialHangsUntilTheProbeTimesOut")
		}
	}
	h.slow = vfBool("probesTakeTime")
	pinged := map[peer.ID]int{}
	done := make(chan struct{}, 8)
	queryErr := vfBool("refreshQueryFails")
	r, rerr := NewRtRefreshManager(h, rt, false,
		func(cpl uint) (string, error) { return "key-" + strconv.Itoa(int(cpl)), nil },
		func(ctx context.Context, key string) error {
			if queryErr {
				return errors.New("query failed")
			}
			return nil
		},
		func(ctx context.Context, p peer.ID) error {
			pinged[p]++
			if h.slow {
				vfAdvance(time.Millisecond)
				if ctx.Err() != nil {
					return ctx.Err()
				}
			}
			if pingFail[p] {
				return errors.New("ping failed")
			}
			return nil
		},
		time.Minute, time.Hour, grace, done)
	vfAssert(rerr == nil, "refresh/constructor")
	r.Start()
	force := vfBool("force")
	ch1 := r.Refresh(force)
	closeEarly := vfBool("closeWhileRefreshing")
	var ch2 <-chan error
	if closeEarly {
		ch2 = r.Refresh(false)
		if vfBool("closeLandsDuringTheLivenessProbe") {
			vfAdvance(500 * time.Microsecond)
		}
		vfAssert(r.Close() == nil, "refresh/close")
	}
	// every request yields exactly one value and is then closed
	for k, ch := range []<-chan error{ch1, ch2} {
		if ch == nil {
			continue
		}
		got := 0
		for range ch {
			got++
		}
		vfAssert(got == 1, "refresh/every-request-gets-exactly-one-answer-"+strconv.Itoa(k))
	}
	if !closeEarly {
		for i, p := range ids {
			member := rt.Find(p) != ""
			probed := stale[i]
			failed := h.connectFail[p] || pingFail[p] || h.hangs[p]
			if probed && failed {
				vfAssert(!member, "refresh/stale-member-that-fails-the-liveness-probe-is-removed")
			} else {
				vfAssert(member, "refresh/member-that-answered-or-was-not-probed-stays")
			}
			if !probed {
				vfAssert(pinged[p] == 0, "refresh/recently-successful-members-are-not-probed")
			}
		}
		vfAssert(r.Close() == nil, "refresh/close")
	}
	vfAssert(r.Close() == nil, "refresh/close-may-be-called-again")
	vfWaitIdle()
	vfAssert(vfLiveGoroutines() == 1, "refresh/no-goroutine-left-after-close")
	vfReach("refresh/end")
}

var _ = vfRegister("VfRefresh", VfRefresh)
