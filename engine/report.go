package main

// Evidence files, known findings, native replay of counterexamples.

import (
	"bufio"
	"bytes"
	"context"
	"crypto/sha256"
	"encoding/binary"
	"encoding/hex"
	"encoding/json"
	"fmt"
	"os"
	"os/exec"
	"path/filepath"
	"regexp"
	"sort"
	"strings"
	"time"
)

type KnownFinding struct {
	Property      string `json:"property"`
	Status        string `json:"status"` // "known" | "fixed"
	Harness       string `json:"harness"`
	Kind          string `json:"kind"`
	LabelContains string `json:"label_contains"`
	SiteContains  string `json:"site_contains"`
	What          string `json:"what"`
	Commit        string `json:"commit,omitempty"`
}

func readKnown(verifDir string) []KnownFinding {
	f, err := os.Open(filepath.Join(verifDir, "KNOWN_FINDINGS.jsonl"))
	if err != nil {
		return nil
	}
	defer f.Close()
	var out []KnownFinding
	sc := bufio.NewScanner(f)
	sc.Buffer(make([]byte, 1<<20), 1<<20)
	for sc.Scan() {
		line := strings.TrimSpace(sc.Text())
		if line == "" || strings.HasPrefix(line, "#") {
			continue
		}
		var k KnownFinding
		if json.Unmarshal([]byte(line), &k) == nil {
			out = append(out, k)
		}
	}
	return out
}

func (k *KnownFinding) matches(id string, v *Violation) bool {
	if k.Status != "known" || k.Property != id {
		return false
	}
	if k.Harness != "" && k.Harness != v.Harness {
		return false
	}
	if k.Kind != "" && k.Kind != v.Kind {
		return false
	}
	if k.LabelContains != "" && !strings.Contains(v.Label, k.LabelContains) {
		return false
	}
	if k.SiteContains != "" && !strings.Contains(v.Site+" "+strings.Join(v.Stack, " "), k.SiteContains) {
		return false
	}
	return true
}

type ReplayVector struct {
	Harness  string            `json:"harness"`
	Pkg      string            `json:"pkg"`
	Property string            `json:"property"`
	Params   map[string]int    `json:"params"`
	Values   map[string]uint64 `json:"values"`
	Choices  []int             `json:"choices"`
	Hash     map[string]string `json:"hash"`
	Synctest bool              `json:"synctest"`
	Kind     string            `json:"kind"`
	Label    string            `json:"label"`
	Detail   string            `json:"detail,omitempty"`
	Site     string            `json:"site,omitempty"`
	Stack    []string          `json:"stack,omitempty"`
	Trail    []decision        `json:"trail"`
	Native   string            `json:"native_replay"`
	NativeOut string           `json:"native_output_tail,omitempty"`
}

// hashWitnesses searches, for every hash input controlled by the harness, bytes
// whose real SHA-256 has the bit pattern the model assigns to the stub.
func hashWitnesses(v *Violation) (map[string]string, error) {
	out := map[string]string{}
	for idx, hin := range v.HashIns {
		parts := strings.Split(hin, "|") // hex|name|prefixLen|W
		if len(parts) < 4 || parts[1] == "" {
			return nil, fmt.Errorf("hash input #%d (%s) is not under harness control", idx, parts[0])
		}
		raw, _ := hex.DecodeString(parts[0])
		var prefixLen, W int
		fmt.Sscan(parts[2], &prefixLen)
		fmt.Sscan(parts[3], &W)
		name := parts[1]
		n := len(raw) - prefixLen
		want := make([]byte, 32)
		for k := 0; k < 32; k++ {
			bitsLeft := W - 8*k
			if bitsLeft <= 0 {
				break
			}
			val := v.Model[fmt.Sprintf("H%d.b%d", idx, k)]
			if bitsLeft >= 8 {
				want[k] = byte(val)
			} else {
				want[k] = byte(val << uint(8-bitsLeft))
			}
		}
		buf := make([]byte, len(raw))
		copy(buf, raw[:prefixLen])
		found := false
		limit := uint64(1) << 34
		if n < 4 {
			limit = uint64(1) << uint(8*n)
		}
		for c := uint64(0); c < limit; c++ {
			var ctr [8]byte
			binary.LittleEndian.PutUint64(ctr[:], c)
			for k := 0; k < n; k++ {
				if k < 8 {
					buf[prefixLen+k] = ctr[k]
				} else {
					buf[prefixLen+k] = raw[prefixLen+k]
				}
			}
			h := sha256.Sum256(buf)
			if prefixMatch(h[:], want, W) {
				out[name] = hex.EncodeToString(buf[prefixLen:])
				found = true
				break
			}
			if W > 28 && c > 1<<30 {
				break
			}
		}
		if !found {
			return nil, fmt.Errorf("no SHA-256 witness found for hash input %s (W=%d)", name, W)
		}
	}
	return out, nil
}

func prefixMatch(h, want []byte, W int) bool {
	full := W / 8
	for k := 0; k < full; k++ {
		if h[k] != want[k] {
			return false
		}
	}
	if r := W % 8; r != 0 {
		m := byte(0xff) << uint(8-r)
		if h[full]&m != want[full]&m {
			return false
		}
	}
	return true
}

func defaultGoEnv() []string {
	var env []string
	for _, e := range os.Environ() {
		if strings.HasPrefix(e, "GOTOOLCHAIN=") || strings.HasPrefix(e, "GOSUMDB=") || strings.HasPrefix(e, "GOFLAGS=") || strings.HasPrefix(e, "PATH=") {
			continue
		}
		env = append(env, e)
	}
	path := os.Getenv("PATH")
	var keep []string
	for _, p := range strings.Split(path, ":") {
		if strings.Contains(p, "go1.26.8") {
			continue
		}
		keep = append(keep, p)
	}
	env = append(env, "PATH="+strings.Join(keep, ":"), "GOFLAGS=-mod=mod", "GOPROXY=off")
	return env
}

// nativeReplay runs the harness natively on the counterexample.
func nativeReplay(L *Loaded, h *HarnessSpec, rv *ReplayVector, file string) (reproduced bool, status string, tail string) {
	work := filepath.Join(L.verifDir, ".work", fmt.Sprintf("replay-%d-%d", os.Getpid(), time.Now().UnixNano()))
	os.MkdirAll(work, 0o755)
	defer os.RemoveAll(work)
	repl := map[string]string{}
	for virt, src := range L.overlay {
		if filepath.Dir(virt) != filepath.Clean(filepath.Join(L.repo, repoDirOf(h.Pkg))) {
			continue
		}
		real := filepath.Join(work, filepath.Base(virt))
		os.WriteFile(real, src, 0o644)
		repl[virt] = real
	}
	// replay test driver
	tsrc, err := os.ReadFile(filepath.Join(L.verifDir, "harness", "rt", "zz_verif_replay_test.go.txt"))
	if err != nil {
		return false, "error: " + err.Error(), ""
	}
	rtSrc := L.overlay[filepath.Join(L.repo, repoDirOf(h.Pkg), "zz_verif_rt.go")]
	pkgName := string(pkgClauseRe.FindSubmatch(rtSrc)[1])
	tfile := filepath.Join(work, "zz_verif_replay_test.go")
	os.WriteFile(tfile, []byte(strings.Replace(string(tsrc), "package PKGNAME", "package "+pkgName, 1)), 0o644)
	repl[filepath.Join(L.repo, repoDirOf(h.Pkg), "zz_verif_replay_test.go")] = tfile
	// extra native-only test files of the harness dir
	ents, _ := os.ReadDir(filepath.Join(L.verifDir, "harness", h.Pkg))
	for _, e := range ents {
		if strings.HasSuffix(e.Name(), "_test.go") {
			repl[filepath.Join(L.repo, repoDirOf(h.Pkg), e.Name())] = filepath.Join(L.verifDir, "harness", h.Pkg, e.Name())
		}
	}
	ovb, _ := json.Marshal(map[string]any{"Replace": repl})
	ovf := filepath.Join(work, "overlay.json")
	os.WriteFile(ovf, ovb, 0o644)

	ctx, cancel := context.WithTimeout(context.Background(), 10*time.Minute)
	defer cancel()
	cmd := exec.CommandContext(ctx, "go", "test", "-v", "-tags", "verif", "-vet=off", "-count=1", "-timeout", "120s", "-overlay", ovf, "-run", "^TestVerifReplay$", "./"+repoDirOf(h.Pkg))
	cmd.Dir = L.repo
	cmd.Env = append(defaultGoEnv(), "VERIF_REPLAY="+file)
	var out bytes.Buffer
	cmd.Stdout = &out
	cmd.Stderr = &out
	cmd.Run()
	txt := out.String()
	lastNativeOutput = txt
	lines := strings.Split(strings.TrimSpace(txt), "\n")
	if max := 40; len(lines) > max && os.Getenv("SYMGO_FULL_NATIVE_OUTPUT") == "" {
		lines = append(lines[:25], lines[len(lines)-15:]...)
	}
	tail = strings.Join(lines, "\n")
	switch {
	case strings.Contains(txt, "VERIF-REPLAY-MISMATCH") || strings.Contains(txt, "VERIF-REPLAY-ERROR"):
		return false, "mismatch: native run left the path of the counterexample", tail
	case strings.Contains(txt, "[build failed]") || strings.Contains(txt, "[setup failed]"):
		return false, "error: native build failed", tail
	}
	switch rv.Kind {
	case "assert":
		if strings.Contains(txt, "VERIF-VIOLATION kind=assert label="+rv.Label+"\n") || strings.Contains(txt, "VERIF-VIOLATION kind=assert label="+rv.Label+" ") {
			return true, "reproduced: native run fails the same assertion", tail
		}
	case "panic":
		if strings.Contains(txt, "panic:") || strings.Contains(txt, "fatal error:") {
			core := panicCore(rv.Label)
			if core == "" || strings.Contains(txt, core) {
				return true, "reproduced: native run panics (" + core + ")", tail
			}
			return false, "mismatch: native run panics differently", tail
		}
	case "deadlock":
		if strings.Contains(txt, "deadlock") || strings.Contains(txt, "test timed out") || strings.Contains(txt, "blocked goroutines remain") {
			return true, "reproduced: native run does not terminate", tail
		}
	}
	if strings.Contains(txt, "VERIF-REPLAY-PASSED") || strings.Contains(txt, "\nok ") || strings.HasPrefix(txt, "ok ") {
		return false, "not reproduced: native run passes", tail
	}
	return false, "not reproduced: native run ended differently", tail
}

// lastNativeOutput is the complete output of the most recent native run.
var lastNativeOutput string

var panicCores = []string{"nil pointer dereference", "index out of range", "slice bounds out of range", "divide by zero",
	"send on closed channel", "close of closed channel", "close of nil channel", "assignment to entry in nil map", "interface conversion", "negative WaitGroup counter", "unlock of unlocked"}

func panicCore(label string) string {
	for _, c := range panicCores {
		if strings.Contains(label, c) {
			return c
		}
	}
	// explicit panic(...) text: use a short, stable part
	l := strings.TrimSpace(label)
	if k := strings.IndexAny(l, "\n"); k >= 0 {
		l = l[:k]
	}
	if len(l) > 40 {
		l = l[:40]
	}
	return l
}

var labelClean = regexp.MustCompile(`[^A-Za-z0-9_.-]+`)

func report(L *Loaded, id, tier string, seed int, ps *PropSpec, results []*harnessResult, wall time.Duration, noNative, verbose bool) int {
	known := readKnown(L.verifDir)
	exit := 0
	var inconcl []string
	var newViolations, knownHits int
	totalPaths, totalDec, totalQ, totalUnsat, totalSat, totalUnk := 0, 0, 0, 0, 0, 0
	nontrivPaths := 0
	var solverT time.Duration
	funcs := map[string]int{}
	var hsum []map[string]any
	var samples []any
	nativeReplays, nativeReproduced := 0, 0
	validated, validationMismatch := 0, 0
	knownPrinted := map[string]bool{}
	replayDir := filepath.Join(L.verifDir, "replays", id)
	if d := os.Getenv("SYMGO_SCRATCH_OUT"); d != "" {
		replayDir = filepath.Join(d, "replays", id)
	}
	sitesTotal, sitesVacuous := 0, 0

	for _, r := range results {
		E := r.E
		totalPaths += E.Paths
		totalDec += E.Decisions
		totalQ += E.Queries
		totalUnsat += E.QUnsat
		totalSat += E.QSat
		totalUnk += E.QUnknown
		solverT += E.SolverTime
		nontrivPaths += E.NontrivPaths
		for f, c := range E.Funcs {
			funcs[f] += c
		}
		for _, m := range E.Inconclusive {
			inconcl = append(inconcl, r.Spec.Func+": "+firstLines(m, 3))
		}
		// vacuity: every assertion site must have been reached on a feasible path
		var vac []string
		for l, st := range E.Sites {
			sitesTotal++
			if st.Reached == 0 {
				vac = append(vac, l)
				sitesVacuous++
			}
		}
		if len(E.Sites) == 0 && len(E.Violations) == 0 {
			inconcl = append(inconcl, r.Spec.Func+": no assertion was reached on any feasible path (vacuous harness)")
		}
		if E.Outcomes["return"] == 0 && len(E.Violations) == 0 {
			inconcl = append(inconcl, r.Spec.Func+": no path ran the harness to completion")
		}
		hs := map[string]any{"harness": r.Spec.Func, "package": r.Spec.Pkg, "params": E.params, "paths": E.Paths, "outcomes": E.Outcomes,
			"decisions": E.Decisions, "forks": E.Forks, "solver_queries": E.Queries, "sat": E.QSat, "unsat": E.QUnsat, "unknown": E.QUnknown,
			"solver_time_s": round3(E.SolverTime.Seconds()), "wall_s": round3(r.Wall.Seconds()), "max_symbolic_vars": E.MaxSymVars,
			"instructions": E.Steps, "assert_sites": E.Sites, "reach": E.Reach, "bounds": r.Spec.Bounds, "note": r.Spec.Note,
			"paths_with_nontrivial_assertion": E.NontrivPaths}
		hsum = append(hsum, hs)
		for _, s := range E.Samples {
			s["harness"] = r.Spec.Func
			samples = append(samples, s)
		}
		// violations
		sort.Slice(E.Violations, func(a, b int) bool { return E.Violations[a].Key() < E.Violations[b].Key() })
		seen := map[string]bool{}
		for _, v := range E.Violations {
			if seen[v.Key()] {
				continue
			}
			seen[v.Key()] = true
			isKnown := false
			for ki := range known {
				if known[ki].matches(id, v) {
					isKnown = true
					if !knownPrinted[known[ki].What] {
						knownPrinted[known[ki].What] = true
						fmt.Printf("KNOWN-FINDING: property=%s %s\n", id, known[ki].What)
					}
					knownHits++
					break
				}
			}
			if isKnown {
				continue
			}
			// write replay file
			os.MkdirAll(replayDir, 0o755)
			rv := &ReplayVector{Harness: v.Harness, Pkg: r.Spec.Pkg, Property: id, Params: v.Params, Values: v.Model, Synctest: r.Spec.Synctest,
				Kind: v.Kind, Label: v.Label, Detail: v.Detail, Site: v.Site, Stack: v.Stack, Trail: v.Trail, Hash: map[string]string{}}
			for _, d := range v.Trail {
				if d.K == 2 {
					rv.Choices = append(rv.Choices, int(d.V))
				}
			}
			fname := filepath.Join(replayDir, fmt.Sprintf("%s-%s-%s.json", v.Harness, v.Kind, trunc(labelClean.ReplaceAllString(v.Label, "_"), 48)))
			status := "skipped"
			reproduced := false
			tail := ""
			if len(v.HashIns) > 0 {
				if hw, err := hashWitnesses(v); err != nil {
					status = "unavailable: " + err.Error()
				} else {
					rv.Hash = hw
				}
			}
			writeJSON(fname, rv)
			if !noNative && !r.Spec.NoNative && !strings.HasPrefix(status, "unavailable") {
				nativeReplays++
				reproduced, status, tail = nativeReplay(L, r.Spec, rv, fname)
				if reproduced {
					nativeReproduced++
				}
			} else if r.Spec.NoNative {
				// confirm in the interpreter's concrete mode instead
				ok, st := concreteReplay(L, r.Spec, rv)
				reproduced = ok
				status = "interpreter-replayed: " + st
			}
			rv.Native = status
			rv.NativeOut = tail
			writeJSON(fname, rv)
			if reproduced || noNative {
				newViolations++
				fmt.Printf("VIOLATION property=%s replay=%s\n", id, fname)
				fmt.Printf("  harness=%s kind=%s label=%q site=%s\n  replay: %s\n", v.Harness, v.Kind, v.Label, v.Site, status)
				if verbose {
					fmt.Printf("  detail=%s\n  model=%v\n  stack=%v\n", v.Detail, v.Model, v.Stack)
				}
				exit = 1
			} else {
				inconcl = append(inconcl, fmt.Sprintf("%s: counterexample for %q did not reproduce natively (%s); see %s", v.Harness, v.Label, status, fname))
				if verbose {
					fmt.Println(tail)
				}
			}
		}
		if len(vac) > 0 {
			inconcl = append(inconcl, fmt.Sprintf("%s: assertion sites never reached: %v", r.Spec.Func, vac))
		}
		// encoder validation: passing paths must also pass natively, reaching the same labels
		for k, v := range E.PassSamples {
			rv := &ReplayVector{Harness: v.Harness, Pkg: r.Spec.Pkg, Property: id, Params: v.Params, Values: v.Model, Synctest: r.Spec.Synctest,
				Kind: "pass", Trail: v.Trail, Hash: map[string]string{}}
			for _, d := range v.Trail {
				if d.K == 2 {
					rv.Choices = append(rv.Choices, int(d.V))
				}
			}
			if len(v.HashIns) > 0 {
				hw, err := hashWitnesses(v)
				if err != nil {
					continue // placement not realisable by the witness search: nothing to compare
				}
				rv.Hash = hw
			}
			os.MkdirAll(filepath.Join(L.verifDir, ".work"), 0o755)
			fname := filepath.Join(L.verifDir, ".work", fmt.Sprintf("validate-%d-%s-%d.json", os.Getpid(), v.Harness, k))
			writeJSON(fname, rv)
			_, status, _ := nativeReplay(L, r.Spec, rv, fname)
			os.Remove(fname)
			validated++
			native := map[string]bool{}
			for _, ln := range strings.Split(lastNativeOutput, "\n") {
				if strings.HasPrefix(ln, "VERIF-REACH ") {
					native[strings.TrimSpace(strings.TrimPrefix(ln, "VERIF-REACH "))] = true
				}
			}
			var diff []string
			for _, l := range v.Observed {
				if !native[l] {
					diff = append(diff, "-"+l)
				}
				delete(native, l)
			}
			for l := range native {
				diff = append(diff, "+"+l)
			}
			if !strings.Contains(status, "native run passes") || len(diff) > 0 {
				validationMismatch++
				fmt.Printf("VALIDATION-MISMATCH harness=%s path=%s native=%q reach-diff=%v\n", v.Harness, trailString(v.Trail), status, diff)
				if os.Getenv("SYMGO_KEEP_VALIDATION") != "" {
					os.MkdirAll(replayDir, 0o755)
					ls := strings.Split(strings.TrimSpace(lastNativeOutput), "\n")
					if len(ls) > 25 {
						ls = ls[len(ls)-25:]
					}
					fmt.Println(strings.Join(ls, "\n"))
					writeJSON(filepath.Join(replayDir, fmt.Sprintf("validation-%s-%d.json", v.Harness, k)), rv)
				}
				inconcl = append(inconcl, fmt.Sprintf("%s: a passing path did not behave the same natively (%s, reach-diff %v)", v.Harness, status, diff))
			}
		}
	}
	if len(inconcl) > 0 && exit == 0 {
		exit = 2
	}
	for k, m := range inconcl {
		if k < 10 {
			fmt.Printf("INCONCLUSIVE reason=%s\n", m)
		}
	}

	// evidence
	var fl []string
	for f := range funcs {
		fl = append(fl, f)
	}
	sort.Strings(fl)
	repoFuncs, libFuncs := []string{}, 0
	for _, f := range fl {
		if strings.Contains(f, repoModule) && !strings.Contains(f, ".Vf") && !strings.Contains(f, ".vf") {
			repoFuncs = append(repoFuncs, strings.ReplaceAll(f, repoModule, "…"))
		} else {
			libFuncs++
		}
	}
	if len(samples) == 0 {
		samples = append(samples, map[string]any{"note": "no completed path"})
	}
	assumptions := []string{
		"bounded symbolic execution of go/ssa built from /repo's working tree at check time; nothing is claimed outside the per-harness bounds listed under coverage.harnesses[].bounds/params",
		"trusted base: go/ssa construction, the symgo interpreter's operational semantics, the term simplifier, z3 5.1 (z3-new; one-shot fall-backs cvc5 1.0 and z3 4.8.12)",
		"hash stub: SHA-256 is an arbitrary injective function; only the first W bits of each digest are symbolic (W = harness param), the rest are zero; harnesses that say so fix the placement (vfHashFixed) or use the real SHA-256 (vfHashReal)",
		"logging, tracing and metrics packages are stubbed to no-ops; math/rand.Shuffle is the identity; map iteration order is insertion order; preemption only at synchronisation points within the stated context-switch budget",
	}
	assumptions = append(assumptions, ps.Assumptions...)
	for _, o := range ps.Outside {
		assumptions = append(assumptions, "outside the claim: "+o)
	}
	ev := map[string]any{
		"property_id": id,
		"tier":        tier,
		"seed":        seed,
		"level":       "model_checking",
		"wall_s":      round3(wall.Seconds()),
		"violations":  newViolations,
		"assumptions": assumptions,
		"coverage": map[string]any{
			"states":                        totalPaths,
			"transitions":                   totalDec + totalQ,
			"traces_validated_against_impl": nativeReplays + validated,
			"passing_paths_rerun_natively":  validated,
			"passing_paths_native_mismatch": validationMismatch,
			"samples":                       samples,
			"exhaustive":                    len(inconcl) == 0,
			"explanation":                   "states = feasible execution paths of the real code explored symbolically (each path covers every value of the symbolic inputs satisfying its path condition); transitions = symbolic decisions taken plus SMT queries discharged; an assertion counts as non-trivial only when it reached the solver (not decided by constant folding)",
			"paths":                         totalPaths,
			"decisions":                     totalDec,
			"solver_queries":                totalQ,
			"solver_sat":                    totalSat,
			"solver_unsat":                  totalUnsat,
			"solver_unknown":                totalUnk,
			"solver_time_s":                 round3(solverT.Seconds()),
			"solver":                        "z3 5.1 (z3-new -in, one incremental process per worker, push/pop per path); on unknown: one-shot z3-new, cvc5 --solve-bv-as-int=sum, z3 4.8.12",
			"paths_with_nontrivial_assertion": nontrivPaths,
			"assert_sites":                  sitesTotal,
			"assert_sites_never_reached":    sitesVacuous,
			"harnesses":                     hsum,
			"functions_encoded_repo":        repoFuncs,
			"functions_encoded_library":     libFuncs,
			"known_findings_hit":            knownHits,
			"native_replays":                nativeReplays,
			"native_reproduced":             nativeReproduced,
			"inconclusive":                  inconcl,
			"ssa_load_s":                    round3(L.loadTime.Seconds()),
		},
	}
	os.MkdirAll(evidenceDir(L.verifDir), 0o755)
	writeJSON(filepath.Join(evidenceDir(L.verifDir), id+".json"), ev)
	fmt.Printf("RESULT property=%s tier=%s paths=%d queries=%d unsat=%d violations=%d known=%d inconclusive=%d exit=%d wall=%.1fs\n",
		id, tier, totalPaths, totalQ, totalUnsat, newViolations, knownHits, len(inconcl), exit, wall.Seconds())
	return exit
}

func writeEvidenceFailure(verifDir, id, tier string, seed int, msg string, wall time.Duration) {
	ev := map[string]any{
		"property_id": id, "tier": tier, "seed": seed, "level": "model_checking", "wall_s": round3(wall.Seconds()), "violations": 0,
		"assumptions": []string{"run was inconclusive: " + msg},
		"coverage":    map[string]any{"evaluations": 1, "distinct_nontrivial": 0, "explanation": "inconclusive: " + msg, "inconclusive": []string{msg}},
	}
	os.MkdirAll(evidenceDir(verifDir), 0o755)
	writeJSON(filepath.Join(evidenceDir(verifDir), id+".json"), ev)
}

func trunc(s string, n int) string {
	if len(s) > n {
		return s[:n]
	}
	return s
}

func round3(f float64) float64 { return float64(int64(f*1000+0.5)) / 1000 }

func writeJSON(path string, v any) {
	b, err := json.MarshalIndent(v, "", " ")
	if err != nil {
		fmt.Fprintln(os.Stderr, "writeJSON:", err)
		return
	}
	os.WriteFile(path, append(b, '\n'), 0o644)
}

// concreteReplay re-runs the harness in the interpreter with all inputs fixed
// to the counterexample's values.
func concreteReplay(L *Loaded, h *HarnessSpec, rv *ReplayVector) (bool, string) {
	fn := h.pkg.Func(h.Func)
	E := &Explorer{L: L, H: h, fn: fn, params: rv.Params, solverKind: "z3", replayModel: Model(rv.Values), replayTrail: rv.Trail}
	E.maxSteps = 50_000_000
	E.deadline = time.Now().Add(10 * time.Minute)
	E.Run(1)
	for _, v := range E.Violations {
		if v.Kind == rv.Kind && v.Label == rv.Label {
			return true, "concrete interpreter run fails the same way"
		}
	}
	if len(E.Violations) > 0 {
		return false, "concrete interpreter run fails differently: " + E.Violations[0].Label
	}
	return false, fmt.Sprintf("concrete interpreter run does not fail (outcomes %v)", E.Outcomes)
}

func replayMain(repo, verifDir, file string, verbose, trace bool) int {
	b, err := os.ReadFile(file)
	if err != nil {
		fmt.Fprintln(os.Stderr, err)
		return 2
	}
	var rv ReplayVector
	if err := json.Unmarshal(b, &rv); err != nil {
		fmt.Fprintln(os.Stderr, err)
		return 2
	}
	L, intercepts, err := loadProgram(repo, verifDir, []string{rv.Pkg})
	if err != nil {
		fmt.Fprintln(os.Stderr, "load:", err)
		return 2
	}
	h := &HarnessSpec{Pkg: rv.Pkg, Func: rv.Harness, Synctest: rv.Synctest}
	h.pkg = L.pkgs[pkgPathOf(rv.Pkg)]
	h.intercept = map[string]string{}
	for k, v := range intercepts[h.Pkg]["*"] {
		h.intercept[k] = v
	}
	for k, v := range intercepts[h.Pkg][h.Func] {
		h.intercept[k] = v
	}
	ok, st := concreteReplay(L, h, &rv)
	fmt.Printf("interpreter replay: %v (%s)\n", ok, st)
	rep, status, tail := nativeReplay(L, h, &rv, file)
	fmt.Printf("native replay: %v (%s)\n%s\n", rep, status, tail)
	if rep {
		fmt.Printf("VIOLATION property=%s replay=%s\n", rv.Property, file)
		return 1
	}
	return 0
}

// evidenceDir: /verif/evidence, unless SYMGO_SCRATCH_OUT names another
// directory (used when the checks are pointed at a scratch copy of the
// repository to try a seeded change: such runs must not touch the evidence).
func evidenceDir(verifDir string) string {
	if d := os.Getenv("SYMGO_SCRATCH_OUT"); d != "" {
		return filepath.Join(d, "evidence")
	}
	return filepath.Join(verifDir, "evidence")
}
