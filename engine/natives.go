package main

// Native models of library functions: the vf* harness API, sync, atomic,
// time, runtime, hashing, errors, fmt and a few assembly-backed helpers.

import (
	"crypto/sha256"
	"bytes"
	"encoding/hex"
	"fmt"
	"go/token"
	"go/types"
	"math"
	"net"
	"os"
	"strconv"
	"strings"
	"time"

	"golang.org/x/tools/go/ssa"
)

type nativeFn func(fr *frame, args []value) value

type stringsBuilder struct{ strings.Builder }

var natives = map[string]nativeFn{}
var summaries = map[string]nativeFn{}
var vfNatives = map[string]nativeFn{}
var pkgInitHooks = map[string]func(i *interpreter, pkg *ssa.Package){}

func (L *Loaded) lookupNative(fn *ssa.Function, name, oname string) nativeFn {
	short := fn.Name()
	if k := strings.IndexByte(short, '['); k > 0 {
		short = short[:k]
	}
	if strings.HasPrefix(short, "vf") && fn.Parent() == nil {
		if nf, ok := vfNatives[short]; ok {
			return nf
		}
	}
	if strings.HasPrefix(short, "init#") && fn.Pos().IsValid() {
		file := fn.Prog.Fset.Position(fn.Pos()).Filename
		for _, sfx := range skipInitInFiles {
			if strings.HasSuffix(file, sfx) {
				return noop
			}
		}
	}
	if nf, ok := natives[name]; ok {
		return nf
	}
	if nf, ok := summaries[name]; ok && !L.noSummary[name] {
		return nf
	}
	if oname != "" {
		if nf, ok := natives[oname]; ok {
			return nf
		}
	}
	return nil
}

var stubPkgPrefixes = []string{
	"github.com/ipfs/go-log",
	"go.uber.org/zap",
	"go.uber.org/multierr",
	"go.opentelemetry.io/",
	"github.com/prometheus/",
	"go.opencensus.io",
	"github.com/ipfs/boxo/routing/http", // never on a path
	"log/slog",
	"log",
	"github.com/libp2p/go-libp2p-kad-dht/internal/metrics",
}

func (L *Loaded) isStubPkg(path string) bool {
	// protobuf runtime (reflection-based) is stubbed; wire helpers stay real and
	// proto.Size/Marshal/Unmarshal/Clone are modelled natively (protomodel.go)
	if strings.HasPrefix(path, "google.golang.org/protobuf/") {
		return path != "google.golang.org/protobuf/encoding/protowire" && path != "google.golang.org/protobuf/internal/errors" &&
			path != "google.golang.org/protobuf/internal/detrand"
	}
	for _, p := range stubPkgPrefixes {
		if path == p || (strings.HasPrefix(path, p) && (strings.HasSuffix(p, "/") || len(path) == len(p) || path[len(p)] == '/')) {
			return true
		}
	}
	return false
}

var noInitPkgs = map[string]bool{
	"runtime": true, "os": true, "syscall": true, "net": true, "reflect": true, "internal/poll": true,
	"sync": true, "sync/atomic": true, "time": true, "testing": true, "internal/godebug": true,
	"crypto/sha256": true, "internal/cpu": true, "errors": true, "internal/reflectlite": true, "fmt": true, "strconv": true, "internal/strconv": true, "unicode": true,
	"google.golang.org/protobuf/internal/detrand": true,
}

// explicit init() functions that are never executed: the default bootstrap
// peer list (multiaddr parsing) and protobuf type registration.
var skipInitInFiles = []string{"/dht_bootstrap.go", ".pb.go", "/core/peer/record.go", "/core/record/envelope.go"}

var stdInitAllow = map[string]bool{
	"io": true, "context": true, "sort": true, "strings": true, "bytes": true, "bufio": true, "encoding/binary": true,
	"encoding/hex": true, "encoding/base32": true, "encoding/base64": true, "math": true, "path": true, "container/list": true,
	"slices": true, "maps": true, "iter": true, "unicode/utf8": true, "math/bits": true, "cmp": true, "io/fs": true,
	"encoding/json": false, "container/heap": true, "math/big": false, "hash/fnv": true,
}

func isStdPkg(path string) bool {
	first := path
	if k := strings.IndexByte(path, '/'); k >= 0 {
		first = path[:k]
	}
	return !strings.Contains(first, ".")
}

// noInit: standard-library package initialisers are skipped unless allow-listed
// (most need reflection, the OS or the runtime); their package-level variables
// keep zero values, and the functions that matter are modelled natively.
func (L *Loaded) noInit(path string) bool {
	if noInitPkgs[path] {
		return true
	}
	if isStdPkg(path) {
		return !stdInitAllow[path]
	}
	return false
}

func (fr *frame) symName(base string) string {
	p := fr.i.p
	n := p.occ[base]
	p.occ[base] = n + 1
	if n == 0 {
		return base
	}
	return fmt.Sprintf("%s#%d", base, n)
}

func argString(v value) string {
	s, ok := v.(string)
	if !ok {
		panic(engineFault{fmt.Sprintf("vf*: name/label argument must be a concrete string, got %T", v)})
	}
	return strings.NewReplacer("|", "_", "\\", "_", " ", "_").Replace(s)
}

func (fr *frame) freshVar(name string, k types.BasicKind) value {
	i := fr.i
	n := fr.symName(name)
	w := kindWidth(k)
	if i.p.concrete {
		return fromBits(k, i.p.E.replayModel[n]&mask1(w))
	}
	return i.tc.Var(n, w)
}

func init() {
	// ---------------- vf* API ----------------
	vfNatives["vfBool"] = func(fr *frame, a []value) value { return fr.freshVar(argString(a[0]), types.Bool) }
	vfNatives["vfU8"] = func(fr *frame, a []value) value { return fr.freshVar(argString(a[0]), types.Uint8) }
	vfNatives["vfU16"] = func(fr *frame, a []value) value { return fr.freshVar(argString(a[0]), types.Uint16) }
	vfNatives["vfU32"] = func(fr *frame, a []value) value { return fr.freshVar(argString(a[0]), types.Uint32) }
	vfNatives["vfU64"] = func(fr *frame, a []value) value { return fr.freshVar(argString(a[0]), types.Uint64) }
	vfNatives["vfI32"] = func(fr *frame, a []value) value { return fr.freshVar(argString(a[0]), types.Int32) }
	vfNatives["vfI64"] = func(fr *frame, a []value) value { return fr.freshVar(argString(a[0]), types.Int64) }
	vfNatives["vfInt"] = func(fr *frame, a []value) value { return fr.freshVar(argString(a[0]), types.Int) }
	vfNatives["vfRange"] = func(fr *frame, a []value) value {
		i := fr.i
		lo, hi := asInt64(a[1]), asInt64(a[2])
		if lo == hi {
			return int(lo)
		}
		v := fr.freshVar(argString(a[0]), types.Int)
		if t, ok := v.(*Term); ok {
			c := i.tc.BAnd(i.tc.Cmp(OpSle, i.tc.Const(64, uint64(lo)), t), i.tc.Cmp(OpSle, t, i.tc.Const(64, uint64(hi))))
			i.p.assumeVal(c)
		}
		return v
	}
	vfNatives["vfBytes"] = func(fr *frame, a []value) value {
		n := int(asInt64(a[1]))
		base := argString(a[0])
		out := make([]value, n)
		for k := range out {
			out[k] = fr.freshVar(fmt.Sprintf("%s[%d]", base, k), types.Uint8)
		}
		return out
	}
	vfNatives["vfOpaque"] = func(fr *frame, a []value) value {
		if fr.i.p.concrete {
			n := asInt64(a[1])
			if n > 1<<24 {
				unsupported("vfOpaque: concrete replay of %d bytes", n)
			}
			out := make([]value, n)
			for k := range out {
				out[k] = uint8(0)
			}
			return out
		}
		return &opaqueSlice{name: argString(a[0]), n: a[1]}
	}
	vfNatives["vfChoose"] = func(fr *frame, a []value) value {
		// a solver-decided choice: fresh int in [0,n) then concretised
		i := fr.i
		n := asInt64(a[1])
		if n <= 1 {
			return 0
		}
		v := fr.freshVar(argString(a[0]), types.Int)
		if t, ok := v.(*Term); ok {
			i.p.assumeVal(i.tc.Cmp(OpUlt, t, i.tc.Const(64, uint64(n))))
			return int(i.p.concretize(t, "vfChoose "+argString(a[0])))
		}
		return v
	}
	vfNatives["vfAssume"] = func(fr *frame, a []value) value { fr.i.p.assumeVal(a[0]); return nil }
	vfNatives["vfAssert"] = func(fr *frame, a []value) value {
		fr.i.p.assertVal(a[0], argString(a[1]))
		return nil
	}
	vfNatives["vfReach"] = func(fr *frame, a []value) value { fr.i.p.reached[argString(a[0])] = true; return nil }
	vfNatives["vfObserve"] = func(fr *frame, a []value) value {
		p := fr.i.p
		if len(p.observed) < 400 {
			p.observed = append(p.observed, argString(a[0])+"="+fr.i.obsString(a[1]))
		}
		return nil
	}
	vfNatives["vfParam"] = func(fr *frame, a []value) value {
		name := argString(a[0])
		v, ok := fr.i.p.E.params[name]
		if !ok {
			panic(engineFault{"vfParam: no value for " + name})
		}
		return v
	}
	vfNatives["vfYield"] = func(fr *frame, a []value) value { fr.i.S.yield(fr.g, argString(a[0])); return nil }
	vfNatives["vfGosched"] = func(fr *frame, a []value) value { fr.i.S.gosched(fr.g); return nil }
	vfNatives["vfWaitIdle"] = func(fr *frame, a []value) value { fr.i.S.waitIdle(fr.g); return nil }
	vfNatives["vfAdvance"] = func(fr *frame, a []value) value {
		d := fr.i.concreteInt(a[0], "vfAdvance")
		fr.i.S.sleep(fr.g, d)
		return nil
	}
	vfNatives["vfLiveGoroutines"] = func(fr *frame, a []value) value { return fr.i.S.live() }
	vfNatives["vfLiveMatching"] = func(fr *frame, a []value) value {
		sub := a[0].(string)
		n := 0
		for _, g := range fr.i.S.gs {
			if g.state != gDone && strings.Contains(g.entry, sub) {
				n++
			}
		}
		return n
	}
	vfNatives["vfBlockedGoroutines"] = func(fr *frame, a []value) value {
		n := 0
		for _, g := range fr.i.S.gs {
			if g.state == gBlocked && !g.timerOnly {
				n++
			}
		}
		return n
	}
	vfNatives["vfHashBits"] = func(fr *frame, a []value) value { fr.i.side["hashbits"] = int(asInt64(a[0])); return nil }
	vfNatives["vfHashConcrete"] = func(fr *frame, a []value) value { fr.i.side["hashconcrete"] = true; return nil }
	// vfHashFixed: one fixed placement - the n-th distinct hashed input gets
	// digest prefix n (W bits). A stated cut for harnesses whose property does
	// not depend on where the digests fall.
	// vfHashReal: concrete inputs get their real SHA-256 digest (for code that
	// depends on real pre-images, e.g. kbucket's prefix table).
	vfNatives["vfHashReal"] = func(fr *frame, a []value) value { fr.i.side["hashreal"] = true; return nil }
	// vfRandSeed: selects the deterministic crypto/rand byte stream
	vfNatives["vfRandSeed"] = func(fr *frame, a []value) value {
		fr.i.side["cryptorand"] = uint64(asInt64(a[0])) * 0x9e3779b97f4a7c15
		return nil
	}
	vfNatives["vfHashFixed"] = func(fr *frame, a []value) value {
		fr.i.side["hashconcrete"] = true
		fr.i.side["hashfixed"] = true
		return nil
	}
	vfNatives["vfSchedBudget"] = func(fr *frame, a []value) value { fr.i.S.switchBudget = int(asInt64(a[0])); return nil }
	vfNatives["vfSchedLIFO"] = func(fr *frame, a []value) value { fr.i.S.lifo = fr.i.truth(a[0]); return nil }
	vfNatives["vfMaxTicks"] = func(fr *frame, a []value) value { fr.i.S.maxTicks = int(asInt64(a[0])); return nil }
	vfNatives["vfExpectPanic"] = func(fr *frame, a []value) value { fr.i.p.expectPanic = argString(a[0]); return nil }
	vfNatives["vfMustFinishWithin"] = func(fr *frame, a []value) value {
		fr.i.spinLimit = fr.i.steps + asInt64(a[0])
		return nil
	}
	vfNatives["vfFinished"] = func(fr *frame, a []value) value { fr.i.spinLimit = 0; return nil }
	vfNatives["vfExpectDeadlock"] = func(fr *frame, a []value) value { fr.i.p.expectDeadlock = true; return nil }
	vfNatives["vfAnd"] = func(fr *frame, a []value) value { return fr.i.vAnd(a[0], a[1]) }
	vfNatives["vfOr"] = func(fr *frame, a []value) value { return fr.i.vOr(a[0], a[1]) }
	vfNatives["vfNot"] = func(fr *frame, a []value) value { return fr.i.vNot(a[0]) }
	vfNatives["vfImplies"] = func(fr *frame, a []value) value { return fr.i.vOr(fr.i.vNot(a[0]), a[1]) }
	vfNatives["vfIte"] = func(fr *frame, a []value) value {
		switch c := a[0].(type) {
		case bool:
			if c {
				return a[1]
			}
			return a[2]
		case *Term:
			if !isScalar(a[1]) {
				if fr.i.truth(c) {
					return a[1]
				}
				return a[2]
			}
			r := fr.i.tc.Ite(c, fr.i.toTerm(a[1]), fr.i.toTerm(a[2]))
			if r.IsConst() {
				return retype(nativeLike(a[1], a[2]), r.val)
			}
			return r
		}
		panic(engineFault{"vfIte"})
	}
	vfNatives["vfNoteHashInput"] = func(fr *frame, a []value) value {
		names, _ := fr.i.side["hashnames"].(map[string]string)
		if names == nil {
			names = map[string]string{}
			fr.i.side["hashnames"] = names
		}
		names[hex.EncodeToString(concBytes(a[2]))] = fmt.Sprintf("%s|%d", argString(a[0]), asInt64(a[1]))
		return nil
	}
	vfNatives["vfRegister"] = func(fr *frame, a []value) value { return true }
	vfNatives["vfSymbolic"] = func(fr *frame, a []value) value { return !fr.i.p.concrete }
	vfNatives["vfInterpreted"] = func(fr *frame, a []value) value { return true }
	vfNatives["vfIsSym"] = func(fr *frame, a []value) value {
		if it, ok := a[0].(iface); ok {
			return isSym(it.v)
		}
		return isSym(a[0])
	}
	vfNatives["vfLog"] = func(fr *frame, a []value) value {
		if fr.i.W.verbose {
			fmt.Fprintln(os.Stderr, "vfLog:", toString(a[0]))
		}
		return nil
	}
	vfNatives["vfNow"] = func(fr *frame, a []value) value { return int64(fr.i.S.now) }
	vfNatives["vfHash"] = func(fr *frame, a []value) value {
		// vfHash(data []byte) [32]byte : the hash stub, callable from harness oracles
		return array(fr.i.hashStub(a[0].([]value)))
	}

	// ---------------- runtime ----------------
	natives["runtime.Gosched"] = func(fr *frame, a []value) value { fr.i.S.gosched(fr.g); return nil }
	natives["runtime.GOMAXPROCS"] = func(fr *frame, a []value) value { return 4 }
	natives["runtime.NumCPU"] = func(fr *frame, a []value) value { return 4 }
	natives["runtime.NumGoroutine"] = func(fr *frame, a []value) value { return fr.i.S.live() }
	natives["runtime.KeepAlive"] = func(fr *frame, a []value) value { return nil }
	natives["runtime.SetFinalizer"] = func(fr *frame, a []value) value { return nil }
	natives["runtime.GC"] = func(fr *frame, a []value) value { return nil }
	natives["runtime.Goexit"] = func(fr *frame, a []value) value { panic(goexitPanic{}) }
	natives["runtime.Stack"] = func(fr *frame, a []value) value { return 0 }
	natives["runtime/debug.Stack"] = func(fr *frame, a []value) value { return []value(nil) }
	natives["runtime.Caller"] = func(fr *frame, a []value) value { return tuple{uintptr(0), "", 0, false} }
	natives["runtime.Callers"] = func(fr *frame, a []value) value { return 0 }
	natives["internal/abi.NoEscape"] = func(fr *frame, a []value) value { return a[0] }
	natives["internal/abi.Escape"] = func(fr *frame, a []value) value { return a[0] }
	natives["os.Getenv"] = func(fr *frame, a []value) value { return "" }
	natives["os.LookupEnv"] = func(fr *frame, a []value) value { return tuple{"", false} }
	natives["internal/godebug.New"] = func(fr *frame, a []value) value { return (*value)(nil) }
	natives["(*internal/godebug.Setting).Value"] = func(fr *frame, a []value) value { return "" }
	natives["(*internal/godebug.Setting).IncNonDefault"] = func(fr *frame, a []value) value { return nil }
	natives["internal/race.Acquire"] = noop
	natives["internal/race.Release"] = noop
	natives["internal/race.ReleaseMerge"] = noop
	natives["internal/race.Disable"] = noop
	natives["internal/race.Enable"] = noop
	natives["internal/race.Read"] = noop
	natives["internal/race.Write"] = noop
	natives["internal/race.ReadRange"] = noop
	natives["internal/race.WriteRange"] = noop
	natives["internal/synctest.IsInBubble"] = func(fr *frame, a []value) value { return false }
	natives["internal/synctest.Disassociate"] = noop
	natives["internal/synctest.IsAssociated"] = func(fr *frame, a []value) value { return false }

	// ---------------- sync ----------------
	natives["(*sync.Mutex).Lock"] = func(fr *frame, a []value) value { fr.i.mutexLock(fr, a[0].(*value)); return nil }
	natives["(*sync.Mutex).Unlock"] = func(fr *frame, a []value) value { fr.i.mutexUnlock(fr, a[0].(*value)); return nil }
	natives["(*sync.Mutex).TryLock"] = func(fr *frame, a []value) value { return fr.i.mutexTryLock(fr, a[0].(*value)) }
	natives["(*sync.RWMutex).Lock"] = natives["(*sync.Mutex).Lock"]
	natives["(*sync.RWMutex).Unlock"] = natives["(*sync.Mutex).Unlock"]
	natives["(*sync.RWMutex).TryLock"] = natives["(*sync.Mutex).TryLock"]
	natives["(*sync.RWMutex).RLock"] = func(fr *frame, a []value) value { fr.i.mutexRLock(fr, a[0].(*value)); return nil }
	natives["(*sync.RWMutex).RUnlock"] = func(fr *frame, a []value) value { fr.i.mutexRUnlock(fr, a[0].(*value)); return nil }
	natives["(*sync.WaitGroup).Add"] = func(fr *frame, a []value) value {
		fr.i.wgAdd(fr, a[0].(*value), asInt64(a[1]))
		return nil
	}
	natives["(*sync.WaitGroup).Done"] = func(fr *frame, a []value) value { fr.i.wgAdd(fr, a[0].(*value), -1); return nil }
	natives["(*sync.WaitGroup).Wait"] = func(fr *frame, a []value) value { fr.i.wgWait(fr, a[0].(*value)); return nil }
	natives["(*sync.WaitGroup).Go"] = func(fr *frame, a []value) value {
		i := fr.i
		wg := a[0].(*value)
		f := a[1]
		i.wgAdd(fr, wg, 1)
		i.S.spawn(i, &nativeClosure{name: funcName(f), f: func(fr2 *frame, _ []value) value {
			defer func() {
				if r := recover(); r != nil {
					switch r.(type) {
					case abortPath, engineFault:
						panic(r)
					}
					panic(r)
				}
			}()
			call(i, fr2, token.NoPos, f, nil)
			i.wgAdd(fr2, wg, -1)
			return nil
		}}, nil, token.NoPos)
		return nil
	}
	natives["(*sync.Pool).Get"] = func(fr *frame, a []value) value {
		p := *(a[0].(*value))
		st := p.(structure)
		// field "New" is the last field
		newf := st[len(st)-1]
		if isNilFunc(newf) {
			return iface{}
		}
		return call(fr.i, fr, token.NoPos, newf, nil)
	}
	natives["(*sync.Pool).Put"] = noop
	natives["(*sync.Cond).Wait"] = func(fr *frame, a []value) value {
		i := fr.i
		c := a[0].(*value)
		vc := i.condOf(c)
		L := (*c).(structure)[1].(iface) // noCopy, L, notify, checker
		i.invoke(fr, L, "Unlock")
		vc.waitq = append(vc.waitq, fr.g)
		i.S.park(fr.g, "Cond.Wait")
		i.invoke(fr, L, "Lock")
		return nil
	}
	natives["(*sync.Cond).Signal"] = func(fr *frame, a []value) value {
		vc := fr.i.condOf(a[0].(*value))
		if len(vc.waitq) > 0 {
			g := vc.waitq[0]
			vc.waitq = vc.waitq[1:]
			fr.i.S.ready(g)
		}
		return nil
	}
	natives["(*sync.Cond).Broadcast"] = func(fr *frame, a []value) value {
		vc := fr.i.condOf(a[0].(*value))
		for _, g := range vc.waitq {
			fr.i.S.ready(g)
		}
		vc.waitq = nil
		return nil
	}

	// ---------------- sync/atomic ----------------
	for _, ty := range []string{"Int32", "Int64", "Uint32", "Uint64", "Uintptr", "Pointer"} {
		ty := ty
		natives["sync/atomic.Load"+ty] = func(fr *frame, a []value) value {
			fr.i.S.yield(fr.g, "atomic")
			return *fr.ptr(a[0])
		}
		natives["sync/atomic.Store"+ty] = func(fr *frame, a []value) value {
			fr.i.S.yield(fr.g, "atomic")
			*fr.ptr(a[0]) = a[1]
			return nil
		}
		natives["sync/atomic.Swap"+ty] = func(fr *frame, a []value) value {
			fr.i.S.yield(fr.g, "atomic")
			p := fr.ptr(a[0])
			old := *p
			*p = a[1]
			return old
		}
		natives["sync/atomic.CompareAndSwap"+ty] = func(fr *frame, a []value) value {
			fr.i.S.yield(fr.g, "atomic")
			p := fr.ptr(a[0])
			var eq bool
			if ty == "Pointer" {
				eq = (*p).(*value) == a[1].(*value)
			} else if isSym(*p) || isSym(a[1]) {
				eq = fr.i.truth(wrapK(types.Bool, fr.i.tc.Eq(fr.i.toTerm(*p), fr.i.toTerm(a[1]))))
			} else {
				eq = *p == a[1]
			}
			if eq {
				*p = a[2]
			}
			return eq
		}
		if ty != "Pointer" {
			natives["sync/atomic.Add"+ty] = func(fr *frame, a []value) value {
				fr.i.S.yield(fr.g, "atomic")
				p := fr.ptr(a[0])
				t := typeOfNative(*p, a[1])
				*p = fr.i.binop(token.ADD, t, t, t, *p, a[1])
				return *p
			}
			natives["sync/atomic.And"+ty] = func(fr *frame, a []value) value {
				p := fr.ptr(a[0])
				old := *p
				t := typeOfNative(*p, a[1])
				*p = fr.i.binop(token.AND, t, t, t, *p, a[1])
				return old
			}
			natives["sync/atomic.Or"+ty] = func(fr *frame, a []value) value {
				p := fr.ptr(a[0])
				old := *p
				t := typeOfNative(*p, a[1])
				*p = fr.i.binop(token.OR, t, t, t, *p, a[1])
				return old
			}
		}
	}
	natives["(*sync/atomic.Value).Load"] = func(fr *frame, a []value) value {
		return (*fr.ptr(a[0])).(structure)[0]
	}
	natives["(*sync/atomic.Value).Store"] = func(fr *frame, a []value) value {
		if a[1].(iface).t == nil {
			panic(targetPanic{v: iface{nil, "sync/atomic: store of nil value into Value"}})
		}
		(*fr.ptr(a[0])).(structure)[0] = a[1]
		return nil
	}
	natives["(*sync/atomic.Value).Swap"] = func(fr *frame, a []value) value {
		st := (*fr.ptr(a[0])).(structure)
		old := st[0]
		st[0] = a[1]
		return old
	}
	natives["(*sync/atomic.Value).CompareAndSwap"] = func(fr *frame, a []value) value {
		st := (*fr.ptr(a[0])).(structure)
		cur := st[0].(iface)
		old := a[1].(iface)
		if fr.i.truth(fr.i.eqv(types.NewInterfaceType(nil, nil), cur, old)) {
			st[0] = a[2]
			return true
		}
		return false
	}

	// ---------------- time ----------------
	natives["time.Now"] = func(fr *frame, a []value) value { return fr.i.mkTime(fr.i.S.now) }
	natives["time.Since"] = func(fr *frame, a []value) value {
		return fr.i.timeSub(fr.i.mkTime(fr.i.S.now), a[0])
	}
	natives["time.Until"] = func(fr *frame, a []value) value {
		return fr.i.timeSub(a[0], fr.i.mkTime(fr.i.S.now))
	}
	natives["time.Sleep"] = func(fr *frame, a []value) value {
		fr.i.S.sleep(fr.g, fr.i.concreteInt(a[0], "time.Sleep"))
		return nil
	}
	natives["time.Unix"] = func(fr *frame, a []value) value {
		i := fr.i
		t64 := types.Typ[types.Int64]
		ns := i.binop(token.ADD, t64, t64, t64, i.binop(token.MUL, t64, t64, t64, a[0], int64(1e9)), a[1])
		return i.mkTimeV(ns)
	}
	natives["time.UnixMilli"] = func(fr *frame, a []value) value {
		t64 := types.Typ[types.Int64]
		return fr.i.mkTimeV(fr.i.binop(token.MUL, t64, t64, t64, a[0], int64(1e6)))
	}
	natives["time.UnixMicro"] = func(fr *frame, a []value) value {
		t64 := types.Typ[types.Int64]
		return fr.i.mkTimeV(fr.i.binop(token.MUL, t64, t64, t64, a[0], int64(1e3)))
	}
	natives["(time.Time).Add"] = func(fr *frame, a []value) value {
		i := fr.i
		t := a[0].(structure)
		if i.timeIsZero(t) == true {
			unsupported("Add on the zero time.Time")
		}
		t64 := types.Typ[types.Int64]
		return i.mkTimeV(i.binop(token.ADD, t64, t64, t64, t[1], a[1]))
	}
	natives["(time.Time).Sub"] = func(fr *frame, a []value) value { return fr.i.timeSub(a[0], a[1]) }
	natives["(time.Time).Before"] = func(fr *frame, a []value) value { return fr.i.timeCmp(token.LSS, a[0], a[1]) }
	natives["(time.Time).After"] = func(fr *frame, a []value) value { return fr.i.timeCmp(token.GTR, a[0], a[1]) }
	natives["(time.Time).Equal"] = func(fr *frame, a []value) value { return fr.i.timeCmp(token.EQL, a[0], a[1]) }
	natives["(time.Time).Compare"] = func(fr *frame, a []value) value {
		i := fr.i
		lt := i.timeCmp(token.LSS, a[0], a[1])
		gt := i.timeCmp(token.GTR, a[0], a[1])
		if i.truth(lt) {
			return -1
		}
		if i.truth(gt) {
			return 1
		}
		return 0
	}
	natives["(time.Time).IsZero"] = func(fr *frame, a []value) value { return fr.i.timeIsZero(a[0].(structure)) }
	natives["(time.Time).UnixNano"] = func(fr *frame, a []value) value { return a[0].(structure)[1] }
	natives["(time.Time).Unix"] = func(fr *frame, a []value) value {
		t64 := types.Typ[types.Int64]
		return fr.i.binop(token.QUO, t64, t64, t64, a[0].(structure)[1], int64(1e9))
	}
	natives["(time.Time).UnixMilli"] = func(fr *frame, a []value) value {
		t64 := types.Typ[types.Int64]
		return fr.i.binop(token.QUO, t64, t64, t64, a[0].(structure)[1], int64(1e6))
	}
	natives["(time.Time).UTC"] = func(fr *frame, a []value) value { return a[0] }
	natives["(time.Time).Local"] = func(fr *frame, a []value) value { return a[0] }
	natives["(time.Time).Round"] = func(fr *frame, a []value) value {
		if d, ok := a[1].(int64); ok && d == 0 {
			return a[0]
		}
		unsupported("time.Time.Round with a non-zero duration")
		return nil
	}
	natives["(time.Time).Truncate"] = natives["(time.Time).Round"]
	natives["(time.Time).Format"] = func(fr *frame, a []value) value {
		t := a[0].(structure)
		ns, ok := t[1].(int64)
		if !ok {
			unsupported("time.Time.Format of a symbolic time")
		}
		if fr.i.timeIsZero(t) == true {
			return time.Time{}.Format(a[1].(string))
		}
		return time.Unix(0, ns).UTC().Format(a[1].(string))
	}
	natives["(time.Time).String"] = func(fr *frame, a []value) value {
		return natives["(time.Time).Format"](fr, []value{a[0], "2006-01-02 15:04:05.999999999 -0700 MST"})
	}
	natives["time.Parse"] = func(fr *frame, a []value) value {
		s, ok := a[1].(string)
		if !ok {
			unsupported("time.Parse of a symbolic string")
		}
		t, err := time.Parse(a[0].(string), s)
		if err != nil {
			return tuple{zero(fr.fn.Signature.Results().At(0).Type()), fr.i.mkError(err.Error())}
		}
		return tuple{fr.i.mkTime(t.UnixNano()), iface{}}
	}
	natives["time.NewTimer"] = func(fr *frame, a []value) value {
		i := fr.i
		d := i.concreteInt(a[0], "timer duration")
		return i.newTimer(fr, d, 0, nil)
	}
	natives["time.NewTicker"] = func(fr *frame, a []value) value {
		i := fr.i
		d := i.concreteInt(a[0], "ticker period")
		if d <= 0 {
			panic(targetPanic{v: iface{nil, "non-positive interval for NewTicker"}})
		}
		return i.newTimer(fr, d, d, nil)
	}
	natives["time.After"] = func(fr *frame, a []value) value {
		i := fr.i
		d := i.concreteInt(a[0], "timer duration")
		t := i.newTimer(fr, d, 0, nil).(*value)
		return (*t).(structure)[0]
	}
	natives["time.Tick"] = func(fr *frame, a []value) value {
		i := fr.i
		d := i.concreteInt(a[0], "ticker period")
		t := i.newTimer(fr, d, d, nil).(*value)
		return (*t).(structure)[0]
	}
	natives["time.AfterFunc"] = func(fr *frame, a []value) value {
		i := fr.i
		d := i.concreteInt(a[0], "timer duration")
		return i.newTimer(fr, d, 0, a[1])
	}
	natives["(*time.Timer).Stop"] = func(fr *frame, a []value) value {
		vt := fr.i.timerOf(a[0].(*value))
		was := vt.active
		vt.active = false
		return was
	}
	natives["(*time.Timer).Reset"] = func(fr *frame, a []value) value {
		i := fr.i
		vt := i.timerOf(a[0].(*value))
		was := vt.active
		d := i.concreteInt(a[1], "timer duration")
		vt.active = false
		if vt.ch != nil {
			vt.ch.buf = nil // Go 1.23+ semantics: stale values are discarded
		}
		nt := &vtimer{due: i.S.now + d, ch: vt.ch, fn: vt.fn, period: vt.period, obj: vt.obj}
		i.side[a[0].(*value)] = nt
		i.S.addTimer(nt)
		return was
	}
	natives["(*time.Ticker).Stop"] = func(fr *frame, a []value) value {
		fr.i.timerOf(a[0].(*value)).active = false
		return nil
	}
	natives["(*time.Ticker).Reset"] = func(fr *frame, a []value) value {
		i := fr.i
		vt := i.timerOf(a[0].(*value))
		d := i.concreteInt(a[1], "ticker period")
		vt.active = false
		nt := &vtimer{due: i.S.now + d, ch: vt.ch, period: d, obj: vt.obj}
		i.side[a[0].(*value)] = nt
		i.S.addTimer(nt)
		return nil
	}

	// ---------------- hashing ----------------
	sum256 := func(fr *frame, a []value) value {
		in, ok := a[0].([]value)
		if !ok {
			unsupported("sha256.Sum256 of %T", a[0])
		}
		return array(fr.i.hashStub(in))
	}
	natives["crypto/sha256.Sum256"] = sum256
	natives["github.com/minio/sha256-simd.Sum256"] = sum256

	// ---------------- math / bits ----------------
	natives["math.Log2"] = func(fr *frame, a []value) value { return math.Log2(a[0].(float64)) }
	natives["math.Floor"] = func(fr *frame, a []value) value { return math.Floor(a[0].(float64)) }
	natives["math.Ceil"] = func(fr *frame, a []value) value { return math.Ceil(a[0].(float64)) }
	natives["math.Sqrt"] = func(fr *frame, a []value) value { return math.Sqrt(a[0].(float64)) }
	natives["math.Abs"] = func(fr *frame, a []value) value { return math.Abs(a[0].(float64)) }
	natives["math.Pow"] = func(fr *frame, a []value) value { return math.Pow(a[0].(float64), a[1].(float64)) }
	natives["math.Log"] = func(fr *frame, a []value) value { return math.Log(a[0].(float64)) }
	natives["math.Exp"] = func(fr *frame, a []value) value { return math.Exp(a[0].(float64)) }
	natives["math.Inf"] = func(fr *frame, a []value) value { return math.Inf(int(asInt64(a[0]))) }
	natives["math.IsNaN"] = func(fr *frame, a []value) value { return math.IsNaN(a[0].(float64)) }
	natives["math.IsInf"] = func(fr *frame, a []value) value { return math.IsInf(a[0].(float64), int(asInt64(a[1]))) }
	natives["math.NaN"] = func(fr *frame, a []value) value { return math.NaN() }
	natives["math.Float64bits"] = func(fr *frame, a []value) value { return math.Float64bits(a[0].(float64)) }
	natives["math.Float64frombits"] = func(fr *frame, a []value) value { return math.Float64frombits(a[0].(uint64)) }
	natives["math.Float32bits"] = func(fr *frame, a []value) value { return math.Float32bits(a[0].(float32)) }
	natives["math.Float32frombits"] = func(fr *frame, a []value) value { return math.Float32frombits(a[0].(uint32)) }
	natives["math.Round"] = func(fr *frame, a []value) value { return math.Round(a[0].(float64)) }
	natives["math.Trunc"] = func(fr *frame, a []value) value { return math.Trunc(a[0].(float64)) }
	natives["math.Max"] = func(fr *frame, a []value) value { return math.Max(a[0].(float64), a[1].(float64)) }
	natives["math.Min"] = func(fr *frame, a []value) value { return math.Min(a[0].(float64), a[1].(float64)) }
	natives["math.Mod"] = func(fr *frame, a []value) value { return math.Mod(a[0].(float64), a[1].(float64)) }
	natives["math/bits.LeadingZeros8"] = func(fr *frame, a []value) value { return fr.i.clz(a[0], 8) }
	natives["math/bits.LeadingZeros64"] = func(fr *frame, a []value) value { return fr.i.clz(a[0], 64) }
	natives["math/bits.LeadingZeros32"] = func(fr *frame, a []value) value { return fr.i.clz(a[0], 32) }
	natives["math/bits.LeadingZeros16"] = func(fr *frame, a []value) value { return fr.i.clz(a[0], 16) }
	natives["math/bits.LeadingZeros"] = func(fr *frame, a []value) value { return fr.i.clz(a[0], 64) }
	natives["math/bits.Len8"] = func(fr *frame, a []value) value { return fr.i.bitlen(a[0], 8) }
	natives["math/bits.Len16"] = func(fr *frame, a []value) value { return fr.i.bitlen(a[0], 16) }
	natives["math/bits.Len32"] = func(fr *frame, a []value) value { return fr.i.bitlen(a[0], 32) }
	natives["math/bits.Len64"] = func(fr *frame, a []value) value { return fr.i.bitlen(a[0], 64) }
	natives["math/bits.Len"] = func(fr *frame, a []value) value { return fr.i.bitlen(a[0], 64) }

	// ---------------- bytes / strings helpers backed by assembly ----------------
	natives["internal/bytealg.Equal"] = func(fr *frame, a []value) value { return fr.i.bytesEqual(a[0], a[1]) }
	natives["bytes.Equal"] = natives["internal/bytealg.Equal"]
	natives["internal/bytealg.IndexByte"] = func(fr *frame, a []value) value { return indexByte(a[0].([]value), a[1]) }
	natives["internal/bytealg.IndexByteString"] = func(fr *frame, a []value) value { return indexByte(strBytes(a[0]), a[1]) }
	natives["internal/bytealg.CountString"] = func(fr *frame, a []value) value {
		return strings.Count(a[0].(string), string([]byte{a[1].(byte)}))
	}
	natives["internal/bytealg.Count"] = func(fr *frame, a []value) value {
		return bytes.Count(concBytes(a[0]), []byte{a[1].(byte)})
	}
	natives["internal/bytealg.Compare"] = func(fr *frame, a []value) value { return fr.i.bytesCompare(a[0].([]value), a[1].([]value)) }
	natives["bytes.Compare"] = natives["internal/bytealg.Compare"]
	natives["internal/bytealg.CompareString"] = func(fr *frame, a []value) value {
		return strings.Compare(a[0].(string), a[1].(string))
	}
	natives["internal/bytealg.MakeNoZero"] = func(fr *frame, a []value) value {
		n := int(asInt64(a[0]))
		out := make([]value, n)
		for k := range out {
			out[k] = uint8(0)
		}
		return out
	}
	natives["internal/bytealg.IndexString"] = func(fr *frame, a []value) value { return strings.Index(a[0].(string), a[1].(string)) }
	natives["internal/bytealg.Index"] = func(fr *frame, a []value) value { return bytes.Index(concBytes(a[0]), concBytes(a[1])) }
	natives["internal/bytealg.LastIndexByteString"] = func(fr *frame, a []value) value {
		return strings.LastIndexByte(a[0].(string), a[1].(byte))
	}
	natives["internal/stringslite.Index"] = natives["internal/bytealg.IndexString"]
	natives["strings.Index"] = natives["internal/bytealg.IndexString"]
	natives["internal/stringslite.IndexByte"] = natives["internal/bytealg.IndexByteString"]
	natives["strings.IndexByte"] = natives["internal/bytealg.IndexByteString"]
	natives["(*strings.Builder).String"] = func(fr *frame, a []value) value {
		st := (*fr.ptr(a[0])).(structure)
		return mkStr(st[1].([]value))
	}
	natives["(*strings.Builder).copyCheck"] = noop
	natives["strings.Clone"] = func(fr *frame, a []value) value { return a[0] }
	natives["unique.Make"] = nil
	delete(natives, "unique.Make")

	// ---------------- errors / fmt ----------------
	natives["errors.Is"] = func(fr *frame, a []value) value { return fr.i.errorsIs(fr, a[0].(iface), a[1].(iface)) }
	natives["errors.As"] = func(fr *frame, a []value) value { return fr.i.errorsAs(fr, a[0].(iface), a[1].(iface)) }
	natives["fmt.Sprintf"] = func(fr *frame, a []value) value {
		return fr.i.sprintf(fr, a[0].(string), a[1].([]value))
	}
	natives["fmt.Sprint"] = func(fr *frame, a []value) value { return fr.i.sprint(fr, a[0].([]value), false) }
	natives["fmt.Sprintln"] = func(fr *frame, a []value) value { return fr.i.sprint(fr, a[0].([]value), true) }
	natives["fmt.Errorf"] = func(fr *frame, a []value) value {
		return fr.i.errorf(fr, a[0].(string), a[1].([]value))
	}
	// fmt.Sscanf on concrete input into pointers to integers / strings: host call
	natives["fmt.Sscanf"] = func(fr *frame, a []value) value {
		in, format := a[0].(string), a[1].(string)
		args := a[2].([]value)
		host := make([]any, len(args))
		for k, x := range args {
			p, ok := x.(iface).v.(*value)
			if !ok {
				panic(engineFault{"fmt.Sscanf: unsupported argument"})
			}
			switch (*p).(type) {
			case int:
				host[k] = new(int)
			case int64:
				host[k] = new(int64)
			case int32:
				host[k] = new(int32)
			case uint64:
				host[k] = new(uint64)
			case uint32:
				host[k] = new(uint32)
			case uint:
				host[k] = new(uint)
			case string:
				host[k] = new(string)
			default:
				panic(engineFault{fmt.Sprintf("fmt.Sscanf: unsupported pointee %T", *p)})
			}
		}
		n, err := fmt.Sscanf(in, format, host...)
		for k, x := range args {
			p := x.(iface).v.(*value)
			switch h := host[k].(type) {
			case *int:
				*p = *h
			case *int64:
				*p = *h
			case *int32:
				*p = *h
			case *uint64:
				*p = *h
			case *uint32:
				*p = *h
			case *uint:
				*p = *h
			case *string:
				*p = *h
			}
		}
		if err != nil {
			return tuple{n, fr.i.mkError(err.Error())}
		}
		return tuple{n, iface{}}
	}
	natives["fmt.Printf"] = func(fr *frame, a []value) value { return tuple{0, iface{}} }
	natives["fmt.Println"] = natives["fmt.Printf"]
	natives["fmt.Print"] = natives["fmt.Printf"]
	natives["fmt.Fprintf"] = func(fr *frame, a []value) value {
		s := fr.i.sprintf(fr, a[1].(string), a[2].([]value))
		return fr.i.writeTo(fr, a[0].(iface), s)
	}
	natives["fmt.Fprint"] = func(fr *frame, a []value) value {
		return fr.i.writeTo(fr, a[0].(iface), fr.i.sprint(fr, a[1].([]value), false))
	}
	natives["fmt.Fprintln"] = func(fr *frame, a []value) value {
		return fr.i.writeTo(fr, a[0].(iface), fr.i.sprint(fr, a[1].([]value), true))
	}

	natives["google.golang.org/protobuf/internal/detrand.Bool"] = func(fr *frame, a []value) value { return false }
	natives["google.golang.org/protobuf/internal/detrand.Intn"] = func(fr *frame, a []value) value { return 0 }
	// ---------------- summaries of pure library kernels ----------------
	// protowire.SizeVarint(v) = (9*bits.Len64(v)+64)/64, summarised as
	// 1 + #{k in 1..9 : v >= 2^(7k)}. The lemma harness VfSizeVarintLemma
	// (spec option "no_summaries") checks the summary against the real body.
	summaries["google.golang.org/protobuf/encoding/protowire.SizeVarint"] = func(fr *frame, a []value) value {
		t, ok := a[0].(*Term)
		if !ok {
			return fr.interpretBody(a)
		}
		tc := fr.i.tc
		res := tc.Const(64, 1)
		for s := uint(7); s < 64; s += 7 {
			res = tc.Bin(OpAdd, res, tc.Ite(tc.Cmp(OpUle, tc.Const(64, uint64(1)<<s), t), tc.Const(64, 1), tc.Const(64, 0)))
		}
		return wrapK(types.Int, res)
	}
	// logging is disabled (the default level): Check returns no entry
	natives["(*go.uber.org/zap.Logger).Check"] = func(fr *frame, a []value) value { return (*value)(nil) }
	natives["(*go.uber.org/zap.SugaredLogger).Level"] = nil
	delete(natives, "(*go.uber.org/zap.SugaredLogger).Level")
	// reflection is not modelled: TypeOf yields a nil Type (any use of it faults visibly)
	natives["reflect.TypeOf"] = func(fr *frame, a []value) value { return iface{} }
	natives["reflect.TypeFor"] = func(fr *frame, a []value) value { return iface{} }
	enumString := func(fr *frame, a []value) value {
		if isSym(a[0]) {
			return "<enum>"
		}
		return "ENUM_" + strconv.FormatInt(asInt64(a[0]), 10)
	}
	natives["(github.com/libp2p/go-libp2p-kad-dht/pb.Message_MessageType).String"] = enumString
	natives["(github.com/libp2p/go-libp2p-kad-dht/pb.Message_ConnectionType).String"] = enumString
	natives["context.WithValue"] = func(fr *frame, a []value) value {
		parent := a[0].(iface)
		if parent.t == nil {
			panic(targetPanic{v: iface{nil, "cannot create context from nil parent"}})
		}
		if a[1].(iface).t == nil {
			panic(targetPanic{v: iface{nil, "nil key"}})
		}
		cp := fr.i.prog.ImportedPackage("context")
		var v value = structure{parent, a[1], a[2]}
		return iface{t: types.NewPointer(cp.Type("valueCtx").Type()), v: &v}
	}
	// (bitstr.Key).Xor on equal-length keys: byte i is '1' iff the bytes differ
	// (no fork per bit). Unequal lengths and concrete keys run the real body.
	summaries["(github.com/ipfs/go-libdht/kad/key/bitstr.Key).Xor"] = func(fr *frame, a []value) value {
		_, s0 := a[0].(*symStr)
		_, s1 := a[1].(*symStr)
		if !s0 && !s1 {
			return fr.interpretBody(a)
		}
		x, y := strBytes(a[0]), strBytes(a[1])
		if len(x) != len(y) {
			return fr.interpretBody(a)
		}
		out := make([]value, len(x))
		u8 := types.Typ[types.Uint8]
		for k := range x {
			eq := fr.i.eqv(u8, x[k], y[k])
			switch e := eq.(type) {
			case bool:
				if e {
					out[k] = uint8('0')
				} else {
					out[k] = uint8('1')
				}
			case *Term:
				out[k] = fr.i.tc.Ite(e, fr.i.tc.Const(8, '0'), fr.i.tc.Const(8, '1'))
			}
		}
		return mkStr(out)
	}
	// strconv.ParseInt(s, 2, 64) on a symbolic bit string of < 63 characters
	// that are all '0'/'1': the binary value as one term.
	summaries["strconv.ParseInt"] = func(fr *frame, a []value) value {
		ss, ok := a[0].(*symStr)
		base, _ := a[1].(int)
		if !ok || base != 2 || len(ss.b) == 0 || len(ss.b) > 62 {
			if ok {
				unsupported("strconv.ParseInt of a symbolic string (base %d, %d chars)", base, len(ss.b))
			}
			return hostFn(strconv.ParseInt)(fr, a)
		}
		tc := fr.i.tc
		acc := tc.Const(64, 0)
		for _, b := range ss.b {
			bt := fr.i.toTerm(b)
			is1 := tc.Eq(bt, tc.Const(8, '1'))
			is0 := tc.Eq(bt, tc.Const(8, '0'))
			if !fr.i.truth(wrapK(types.Bool, tc.BOr(is0, is1))) {
				unsupported("strconv.ParseInt base 2 of a symbolic string with non-binary characters")
			}
			acc = tc.Bin(OpAdd, tc.Bin(OpShl, acc, tc.Const(64, 1)), tc.Ite(is1, tc.Const(64, 1), tc.Const(64, 0)))
		}
		return tuple{wrapK(types.Int64, acc), iface{}}
	}
	// net.ParseCIDR on a concrete string: computed by the host, returned as
	// ordinary net.IP / *net.IPNet values (Contains etc. are interpreted).
	natives["net.ParseCIDR"] = func(fr *frame, a []value) value {
		str, ok := a[0].(string)
		if !ok {
			unsupported("net.ParseCIDR of a symbolic string")
		}
		ip, ipn, err := net.ParseCIDR(str)
		if err != nil {
			return tuple{[]value(nil), (*value)(nil), fr.i.mkError(err.Error())}
		}
		var st value = structure{bytesVal(ipn.IP), bytesVal(ipn.Mask)}
		return tuple{bytesVal(ip), &st, iface{}}
	}
	natives["net.ParseIP"] = func(fr *frame, a []value) value {
		str, ok := a[0].(string)
		if !ok {
			unsupported("net.ParseIP of a symbolic string")
		}
		ip := net.ParseIP(str)
		if ip == nil {
			return []value(nil)
		}
		return bytesVal(ip)
	}
	// net.IP / net.IPMask String on concrete bytes: host call (the std code goes
	// through net/netip, whose package state is not initialised here)
	natives["(net.IP).String"] = func(fr *frame, a []value) value {
		b, ok := a[0].([]value)
		if !ok || b == nil {
			return net.IP(nil).String()
		}
		for _, x := range b {
			if isSym(x) {
				// symbolic address: interpret the std code. Its text is NOT
				// meaningful here (net/netip's package state is not initialised);
				// the only consumer in the harnesses is multiaddr validation,
				// which discards the text and keeps the error (always nil).
				return callSSABody(fr.i, fr.caller, fr.callpos, fr.fn, a, nil)
			}
		}
		return net.IP(concBytes(b)).String()
	}
	natives["(net.IPMask).String"] = func(fr *frame, a []value) value {
		b, ok := a[0].([]value)
		if !ok || b == nil {
			return net.IPMask(nil).String()
		}
		return net.IPMask(concBytes(b)).String()
	}
	// ---------------- tracing ----------------
	startSpan := func(fr *frame, a []value) value {
		tp := fr.i.prog.ImportedPackage("go.opentelemetry.io/otel/trace")
		var span value = iface{}
		if tp != nil {
			if t := tp.Type("noopSpan"); t != nil {
				span = iface{t: t.Type(), v: zero(t.Type())}
			}
		}
		return tuple{a[0], span}
	}
	natives["github.com/libp2p/go-libp2p-kad-dht/internal.StartSpan"] = startSpan
	natives["github.com/libp2p/go-libp2p-kad-dht/internal/metrics.ContextWithAttributes"] = func(fr *frame, a []value) value { return a[0] }
	natives["(github.com/libp2p/go-libp2p-routing-helpers/tracing.Tracer).StartSpan"] = func(fr *frame, a []value) value {
		return startSpan(fr, a[1:])
	}
	for _, n := range []string{
		"github.com/libp2p/go-libp2p-kad-dht/internal.KeyAsAttribute",
		"github.com/libp2p/go-libp2p-kad-dht/internal.LoggableRecordKeyString",
		"github.com/libp2p/go-libp2p-kad-dht/internal.LoggableRecordKeyBytes",
		"github.com/libp2p/go-libp2p-kad-dht/internal.LoggableProviderRecordBytes",
	} {
		natives[n] = func(fr *frame, a []value) value { return zeroResults(fr.fn.Signature) }
	}
	// ---------------- uuid / rand ----------------
	natives["github.com/google/uuid.New"] = func(fr *frame, a []value) value {
		out := make(array, 16)
		for k := range out {
			out[k] = uint8(k + 1)
		}
		return out
	}
	natives["github.com/google/uuid.NewString"] = func(fr *frame, a []value) value {
		return "01020304-0506-0708-090a-0b0c0d0e0f10"
	}
	// maps.Clone's runtime helper: a shallow copy
	natives["maps.clone"] = func(fr *frame, a []value) value {
		src, ok := a[0].(iface)
		if !ok {
			panic(engineFault{"maps.clone: unexpected argument"})
		}
		m, ok := src.v.(*omap)
		if !ok || m == nil {
			return src
		}
		c := newOmap()
		for _, e := range m.ents {
			c.ents = append(c.ents, e)
		}
		for k, v := range m.idx {
			c.idx[k] = v
		}
		c.live, c.nsym = m.live, m.nsym
		return iface{t: src.t, v: c}
	}
	// crypto/rand: a fixed deterministic byte stream (stated in the evidence)
	natives["crypto/rand.Read"] = func(fr *frame, a []value) value {
		b := a[0].([]value)
		st, _ := fr.i.side["cryptorand"].(uint64)
		for k := range b {
			st = st*6364136223846793005 + 1442695040888963407
			b[k] = uint8(st >> 56)
		}
		fr.i.side["cryptorand"] = st
		return tuple{len(b), iface{}}
	}
	natives["math/rand.Shuffle"] = noop // identity permutation (stated in the evidence)
	natives["math/rand.Intn"] = func(fr *frame, a []value) value { return 0 }
	natives["math/rand.Int63n"] = func(fr *frame, a []value) value { return int64(0) }
	natives["math/rand.Int63"] = func(fr *frame, a []value) value { return int64(0) }
	natives["math/rand.Int"] = func(fr *frame, a []value) value { return 0 }
	natives["math/rand.Float64"] = func(fr *frame, a []value) value { return 0.5 }
	natives["math/rand/v2.Shuffle"] = noop
	natives["math/rand/v2.Int"] = func(fr *frame, a []value) value { return 0 }
	natives["math/rand/v2.Uint64"] = func(fr *frame, a []value) value { return uint64(0) }
	natives["math/rand/v2.Uint32"] = func(fr *frame, a []value) value { return uint32(0) }
	natives["math/rand/v2.Int64"] = func(fr *frame, a []value) value { return int64(0) }
	natives["math/rand/v2.IntN"] = func(fr *frame, a []value) value { return 0 }
	natives["math/rand/v2.Int64N"] = func(fr *frame, a []value) value { return int64(0) }
	natives["math/rand/v2.Float64"] = func(fr *frame, a []value) value { return 0.5 }
	natives["math/rand/v2.N[time.Duration]"] = func(fr *frame, a []value) value { return int64(0) }
}

func noop(fr *frame, a []value) value { return nil }

func init() {
	// package net is not initialised (resolver configuration etc.); the address
	// constants that pure functions such as IP.IsLoopback rely on are set here.
	pkgInitHooks["net"] = func(i *interpreter, pkg *ssa.Package) {
		set := func(name string, ip net.IP) {
			if g, ok := pkg.Members[name].(*ssa.Global); ok {
				var cell value = bytesVal(ip)
				i.globals[g] = &cell
			}
		}
		set("IPv4bcast", net.IPv4bcast)
		set("IPv4allsys", net.IPv4allsys)
		set("IPv4allrouter", net.IPv4allrouter)
		set("IPv4zero", net.IPv4zero)
		set("IPv6zero", net.IPv6zero)
		set("IPv6unspecified", net.IPv6unspecified)
		set("IPv6loopback", net.IPv6loopback)
		set("IPv6interfacelocalallnodes", net.IPv6interfacelocalallnodes)
		set("IPv6linklocalallnodes", net.IPv6linklocalallnodes)
		set("IPv6linklocalallrouters", net.IPv6linklocalallrouters)
		set("v4InV6Prefix", []byte{0, 0, 0, 0, 0, 0, 0, 0, 0, 0, 0xff, 0xff})
		set("classAMask", net.IP(net.IPv4Mask(0xff, 0, 0, 0)))
		set("classBMask", net.IP(net.IPv4Mask(0xff, 0xff, 0, 0)))
		set("classCMask", net.IP(net.IPv4Mask(0xff, 0xff, 0xff, 0)))
	}
}

func nativeLike(a, b value) value {
	if !isSym(a) {
		return a
	}
	return b
}

func typeOfNative(vs ...value) types.Type {
	for _, v := range vs {
		switch v.(type) {
		case int32:
			return types.Typ[types.Int32]
		case int64:
			return types.Typ[types.Int64]
		case uint32:
			return types.Typ[types.Uint32]
		case uint64:
			return types.Typ[types.Uint64]
		case uintptr:
			return types.Typ[types.Uintptr]
		case int:
			return types.Typ[types.Int]
		}
	}
	for _, v := range vs {
		if t, ok := v.(*Term); ok {
			if t.w == 32 {
				return types.Typ[types.Int32]
			}
			return types.Typ[types.Int64]
		}
	}
	panic(engineFault{"typeOfNative"})
}

func concBytes(v value) []byte {
	xs := v.([]value)
	out := make([]byte, len(xs))
	for k, e := range xs {
		b, ok := e.(uint8)
		if !ok {
			unsupported("symbolic byte in a host call")
		}
		out[k] = b
	}
	return out
}

func bytesVal(b []byte) []value {
	out := make([]value, len(b))
	for k, c := range b {
		out[k] = c
	}
	return out
}

func indexByte(b []value, c value) value {
	for k, e := range b {
		if isSym(e) || isSym(c) {
			unsupported("IndexByte over symbolic bytes")
		}
		if e == c {
			return k
		}
	}
	return -1
}

func (i *interpreter) bytesEqual(a, b value) value {
	xa, ok1 := a.([]value)
	xb, ok2 := b.([]value)
	if !ok1 || !ok2 {
		unsupported("bytes.Equal on %T,%T", a, b)
	}
	if len(xa) != len(xb) {
		return false
	}
	var r value = true
	for k := range xa {
		r = i.vAnd(r, i.eqv(types.Typ[types.Uint8], xa[k], xb[k]))
		if r == false {
			return false
		}
	}
	return r
}

func (i *interpreter) bytesCompare(a, b []value) value {
	n := len(a)
	if len(b) < n {
		n = len(b)
	}
	u8 := types.Typ[types.Uint8]
	sym := false
	for k := 0; k < n; k++ {
		if isSym(a[k]) || isSym(b[k]) {
			sym = true
			break
		}
	}
	if sym {
		// one integer term: no forking on the position of the first difference
		tc := i.tc
		tail := 0
		switch {
		case len(a) < len(b):
			tail = -1
		case len(a) > len(b):
			tail = 1
		}
		res := tc.Const(64, uint64(int64(tail)))
		for k := n - 1; k >= 0; k-- {
			x, y := i.toTerm(a[k]), i.toTerm(b[k])
			res = tc.Ite(tc.Cmp(OpUlt, x, y), tc.Const(64, ^uint64(0)), tc.Ite(tc.Cmp(OpUlt, y, x), tc.Const(64, 1), res))
		}
		return wrapK(types.Int, res)
	}
	for k := 0; k < n; k++ {
		if i.truth(i.binop(token.LSS, u8, u8, types.Typ[types.Bool], a[k], b[k])) {
			return -1
		}
		if i.truth(i.binop(token.GTR, u8, u8, types.Typ[types.Bool], a[k], b[k])) {
			return 1
		}
	}
	switch {
	case len(a) < len(b):
		return -1
	case len(a) > len(b):
		return 1
	}
	return 0
}

// clz returns the number of leading zero bits of a w-bit value as an int.
func (i *interpreter) clz(v value, w uint8) value {
	t, ok := v.(*Term)
	if !ok {
		x := asUint64(v)
		n := 0
		for b := int(w) - 1; b >= 0 && x&(1<<uint(b)) == 0; b-- {
			n++
		}
		return n
	}
	tc := i.tc
	res := tc.Const(64, uint64(w))
	for b := uint8(0); b < t.w; b++ {
		bit := tc.Eq(tc.Extract(t, b, b), tc.Const(1, 1))
		res = tc.Ite(bit, tc.Const(64, uint64(t.w-1-b)), res)
	}
	return wrapK(types.Int, res)
}

func (i *interpreter) bitlen(v value, w uint8) value {
	c := i.clz(v, w)
	ti := types.Typ[types.Int]
	return i.binop(token.SUB, ti, ti, ti, int(w), c)
}

// ---------------------------------------------------------------------
// hash stub

type hashEntry struct {
	in  []value
	out []value
}

func (i *interpreter) hashStub(in []value) []value {
	concrete := true
	for _, e := range in {
		if isSym(e) {
			concrete = false
			break
		}
	}
	var key string
	if concrete {
		key = string(concBytes(in))
		if out, ok := i.hashMemo[key]; ok {
			return append([]value{}, out...)
		}
	}
	if _, ok := i.side["hashreal"]; ok && concrete {
		sum := sha256.Sum256([]byte(key))
		out := make([]value, 32)
		for k := range out {
			out[k] = sum[k]
		}
		i.hashMemo[key] = out
		return append([]value{}, out...)
	}
	var entries []hashEntry
	if e, ok := i.side["hashes"]; ok {
		entries = e.([]hashEntry)
	}
	W := 8
	if w, ok := i.side["hashbits"]; ok {
		W = w.(int)
	}
	idx := len(entries)
	out := make([]value, 32)
	tc := i.tc
	for k := 0; k < 32; k++ {
		bitsLeft := W - 8*k
		switch {
		case bitsLeft >= 8:
			out[k] = i.symByte(fmt.Sprintf("H%d.b%d", idx, k), 8)
		case bitsLeft > 0:
			v := i.symByte(fmt.Sprintf("H%d.b%d", idx, k), uint8(bitsLeft))
			if t, ok := v.(*Term); ok {
				out[k] = tc.Concat(t, tc.Const(uint8(8-bitsLeft), 0))
			} else {
				out[k] = uint8(asUint64(v) << uint(8-bitsLeft))
			}
		default:
			out[k] = uint8(0)
		}
	}
	if _, ok := i.side["hashfixed"]; ok && !i.p.concrete && concrete && W <= 8 {
		if t, ok := out[0].(*Term); ok {
			want := uint64(idx%(1<<uint(W))) << uint(8-W)
			i.p.assumeEnv(i.eqv(types.Typ[types.Uint8], t, uint8(want)))
		}
	}
	// functional consistency and injectivity against earlier entries
	if !i.p.concrete {
		for _, e := range entries {
			var eqOut value = true
			for k := 0; k < 32; k++ {
				eqOut = i.vAnd(eqOut, i.eqv(types.Typ[types.Uint8], out[k], e.out[k]))
			}
			var eqIn value = false
			if len(e.in) == len(in) {
				eqIn = true
				for k := range in {
					eqIn = i.vAnd(eqIn, i.eqv(types.Typ[types.Uint8], in[k], e.in[k]))
				}
			}
			// eqIn <=> eqOut
			c := i.vAnd(i.vOr(i.vNot(eqIn), eqOut), i.vOr(i.vNot(eqOut), eqIn))
			i.p.assumeEnv(c)
		}
	}
	if _, ok := i.side["hashconcrete"]; ok && !i.p.concrete {
		// the digest is still chosen by the solver (every value consistent with
		// injectivity is explored) but is concrete on each path
		for k := range out {
			if t, ok := out[k].(*Term); ok {
				out[k] = uint8(i.p.concretize(t, "hash byte"))
			}
		}
	}
	entries = append(entries, hashEntry{in: append([]value{}, in...), out: out})
	i.side["hashes"] = entries
	if concrete {
		i.hashMemo[key] = out
		i.hashIns = append(i.hashIns, hex.EncodeToString([]byte(key)))
	} else {
		i.hashIns = append(i.hashIns, "<symbolic>")
	}
	return append([]value{}, out...)
}

// hashInsDescr lists the hash inputs as "hex|name|prefixLen|W".
func (i *interpreter) hashInsDescr() []string {
	names, _ := i.side["hashnames"].(map[string]string)
	W := 8
	if w, ok := i.side["hashbits"]; ok {
		W = w.(int)
	}
	out := make([]string, len(i.hashIns))
	for k, h := range i.hashIns {
		nm := names[h]
		if nm == "" {
			nm = "|0"
		}
		out[k] = fmt.Sprintf("%s|%s|%d", h, nm, W)
	}
	return out
}

func (i *interpreter) symByte(name string, w uint8) value {
	if i.p.concrete {
		return uint8(i.p.E.replayModel[name] & mask(w))
	}
	return i.tc.Var(name, w)
}

// ---------------------------------------------------------------------
// time model: time.Time = {wall: 1 if set else 0, ext: ns since Unix epoch, loc: nil}

func (i *interpreter) mkTime(ns int64) value {
	return structure{uint64(1), ns, (*value)(nil)}
}

func (i *interpreter) mkTimeV(ns value) value {
	return structure{uint64(1), ns, (*value)(nil)}
}

func (i *interpreter) timeIsZero(t structure) value {
	return i.eqv(types.Typ[types.Uint64], t[0], uint64(0))
}

func (i *interpreter) timeNs(v value) value {
	t := v.(structure)
	if z := i.timeIsZero(t); z == true {
		// the zero time is far in the past: model as MinInt64/2
		return int64(math.MinInt64 / 2)
	} else if z != false {
		unsupported("time value that is symbolically zero or set")
	}
	return t[1]
}

func (i *interpreter) timeSub(a, b value) value {
	x, y := i.timeNs(a), i.timeNs(b)
	t64 := types.Typ[types.Int64]
	if !isSym(x) && !isSym(y) {
		xa, ya := x.(int64), y.(int64)
		d := xa - ya
		if (d < 0) != (xa < ya) { // overflow: saturate as time.Time.Sub does
			if xa < ya {
				return int64(math.MinInt64)
			}
			return int64(math.MaxInt64)
		}
		return d
	}
	tc := i.tc
	ta, tb := i.toTerm(x), i.toTerm(y)
	d := tc.Bin(OpSub, ta, tb)
	zero64 := tc.Const(64, 0)
	aNeg, bNeg, dNeg := tc.Cmp(OpSlt, ta, zero64), tc.Cmp(OpSlt, tb, zero64), tc.Cmp(OpSlt, d, zero64)
	posOv := tc.BAnd(tc.BNot(aNeg), tc.BAnd(bNeg, dNeg))
	negOv := tc.BAnd(aNeg, tc.BAnd(tc.BNot(bNeg), tc.BNot(dNeg)))
	r := tc.Ite(posOv, tc.Const(64, math.MaxInt64), tc.Ite(negOv, tc.Const(64, 1<<63), d))
	_ = t64
	return wrapK(types.Int64, r)
}

func (i *interpreter) timeCmp(op token.Token, a, b value) value {
	t64 := types.Typ[types.Int64]
	return i.binop(op, t64, t64, types.Typ[types.Bool], i.timeNs(a), i.timeNs(b))
}

func (i *interpreter) timerOf(p *value) *vtimer {
	if p == nil {
		i.nilDeref()
	}
	if t, ok := i.side[p]; ok {
		return t.(*vtimer)
	}
	panic(targetPanic{v: iface{nil, "time: Stop/Reset called on uninitialized Timer"}})
}

// newTimer allocates a *time.Timer / *time.Ticker shaped object.
func (i *interpreter) newTimer(fr *frame, d, period int64, fn value) value {
	var ch *hchan
	if fn == nil {
		ch = &hchan{cap: 1}
	}
	var obj value = structure{ch, true}
	if fn != nil {
		obj = structure{(*hchan)(nil), true}
	}
	p := &obj
	vt := &vtimer{due: i.S.now + d, ch: ch, fn: fn, period: period, obj: p}
	i.side[p] = vt
	i.S.addTimer(vt)
	return p
}

// ---------------------------------------------------------------------
// errors and fmt

func (i *interpreter) errorStringType() types.Type {
	pkg := i.prog.ImportedPackage("errors")
	if pkg == nil {
		panic(engineFault{"package errors not loaded"})
	}
	return types.NewPointer(pkg.Type("errorString").Type())
}

func (i *interpreter) mkError(msg string) value {
	var v value = structure{msg}
	return iface{t: i.errorStringType(), v: &v}
}

// invoke calls method name on an interface value with no arguments beyond args.
func (i *interpreter) invoke(fr *frame, recv iface, name string, args ...value) value {
	if recv.t == nil {
		i.nilDeref()
	}
	ms := i.prog.MethodSets.MethodSet(recv.t)
	var sel *types.Selection
	for k := 0; k < ms.Len(); k++ {
		if ms.At(k).Obj().Name() == name {
			sel = ms.At(k)
			break
		}
	}
	if sel == nil {
		panic(engineFault{fmt.Sprintf("invoke: %s has no method %s", recv.t, name)})
	}
	fn := i.prog.MethodValue(sel)
	return call(i, fr, token.NoPos, fn, append([]value{recv.v}, args...))
}

func (i *interpreter) hasMethod(t types.Type, name string) bool {
	ms := i.prog.MethodSets.MethodSet(t)
	for k := 0; k < ms.Len(); k++ {
		if ms.At(k).Obj().Name() == name {
			return true
		}
	}
	return false
}

func comparableType(t types.Type) bool { return types.Comparable(t) }

func (i *interpreter) errorsIs(fr *frame, err, target iface) value {
	if err.t == nil || target.t == nil {
		return err.t == nil && target.t == nil
	}
	errT := types.Universe.Lookup("error").Type()
	var walk func(e iface) bool
	walk = func(e iface) bool {
		for {
			if comparableType(target.t) && sameType(e.t, target.t) {
				if i.truth(i.eqv(errT, e, target)) {
					return true
				}
			}
			if i.hasMethod(e.t, "Is") {
				if r, ok := i.invoke(fr, e, "Is", target).(bool); ok && r {
					return true
				}
			}
			if !i.hasMethod(e.t, "Unwrap") {
				return false
			}
			switch u := i.invoke(fr, e, "Unwrap").(type) {
			case iface:
				if u.t == nil {
					return false
				}
				e = u
			case []value:
				for _, x := range u {
					if xi := x.(iface); xi.t != nil && walk(xi) {
						return true
					}
				}
				return false
			default:
				return false
			}
		}
	}
	return walk(err)
}

func (i *interpreter) errorsAs(fr *frame, err, target iface) value {
	if target.t == nil {
		panic(targetPanic{v: iface{nil, "errors: target cannot be nil"}})
	}
	pt, ok := target.t.Underlying().(*types.Pointer)
	if !ok {
		panic(targetPanic{v: iface{nil, "errors: target must be a non-nil pointer"}})
	}
	tt := pt.Elem()
	dst := target.v.(*value)
	var walk func(e iface) bool
	walk = func(e iface) bool {
		for e.t != nil {
			if it, ok := tt.Underlying().(*types.Interface); ok {
				if types.Implements(e.t, it) {
					*dst = e
					return true
				}
			} else if types.Identical(e.t, tt) {
				store(tt, dst, e.v)
				return true
			}
			if i.hasMethod(e.t, "As") {
				if r, ok := i.invoke(fr, e, "As", target).(bool); ok && r {
					return true
				}
			}
			if !i.hasMethod(e.t, "Unwrap") {
				return false
			}
			switch u := i.invoke(fr, e, "Unwrap").(type) {
			case iface:
				e = u
			case []value:
				for _, x := range u {
					if xi := x.(iface); xi.t != nil && walk(xi) {
						return true
					}
				}
				return false
			default:
				return false
			}
		}
		return false
	}
	return walk(err)
}

// fmtArg renders one operand for the native formatter.
func (i *interpreter) fmtArg(fr *frame, v value, verb byte) string {
	it, ok := v.(iface)
	if ok {
		if it.t == nil {
			return "<nil>"
		}
		if verb != 'T' && verb != 'd' && verb != 'x' && verb != 'p' {
			errT := types.Universe.Lookup("error").Type().Underlying().(*types.Interface)
			if types.Implements(it.t, errT) {
				if p, isPtr := it.v.(*value); !isPtr || p != nil {
					if s, ok := i.invoke(fr, it, "Error").(string); ok {
						return s
					}
				}
			} else if i.hasMethod(it.t, "String") {
				ms := i.prog.MethodSets.MethodSet(it.t)
				for k := 0; k < ms.Len(); k++ {
					if ms.At(k).Obj().Name() == "String" {
						sig := ms.At(k).Type().(*types.Signature)
						if sig.Params().Len() == 0 && sig.Results().Len() == 1 {
							if p, isPtr := it.v.(*value); !isPtr || p != nil {
								func() {
									defer func() {
										if r := recover(); r != nil {
											if _, ok := r.(abortPath); ok {
												panic(r)
											}
											v = "<String() failed>"
										}
									}()
									if s, ok := i.invoke(fr, it, "String").(string); ok {
										v = s
									}
								}()
								if s, ok := v.(string); ok {
									return s
								}
							}
						}
					}
				}
			}
		}
		if verb == 'T' {
			return it.t.String()
		}
		v = it.v
	}
	switch x := v.(type) {
	case string:
		if verb == 'q' {
			return fmt.Sprintf("%q", x)
		}
		if verb == 'x' {
			return hex.EncodeToString([]byte(x))
		}
		return x
	case *Term:
		return "<sym>"
	case *symStr:
		return "<symstr>"
	case []value:
		if verb == 'x' || verb == 's' {
			allb := true
			bs := make([]byte, len(x))
			for k, e := range x {
				b, ok := e.(uint8)
				if !ok {
					allb = false
					break
				}
				bs[k] = b
			}
			if allb {
				if verb == 'x' {
					return hex.EncodeToString(bs)
				}
				return string(bs)
			}
		}
		parts := make([]string, 0, len(x))
		for _, e := range x {
			parts = append(parts, i.fmtArg(fr, e, verb))
		}
		return "[" + strings.Join(parts, " ") + "]"
	case bool, int, int8, int16, int32, int64, uint, uint8, uint16, uint32, uint64, uintptr, float32, float64:
		switch verb {
		case 'x':
			return fmt.Sprintf("%x", x)
		case 'c':
			return fmt.Sprintf("%c", x)
		}
		return fmt.Sprint(x)
	}
	return toString(v)
}

func (i *interpreter) sprintf(fr *frame, format string, args []value) value {
	var out []value
	emit := func(s string) {
		for k := 0; k < len(s); k++ {
			out = append(out, s[k])
		}
	}
	ai := 0
	for k := 0; k < len(format); k++ {
		c := format[k]
		if c != '%' {
			out = append(out, c)
			continue
		}
		start := k
		k++
		for k < len(format) && strings.IndexByte("+-# 0123456789.", format[k]) >= 0 {
			k++
		}
		if k >= len(format) {
			break
		}
		verb := format[k]
		if verb == '%' {
			out = append(out, byte('%'))
			continue
		}
		if verb == '*' {
			unsupported("fmt: * width")
		}
		directive := format[start : k+1]
		if ai >= len(args) {
			emit("%!" + string(verb) + "(MISSING)")
			continue
		}
		a := args[ai]
		ai++
		// unwrap interface holding a plain scalar or string: use the host formatter
		inner := a
		if it, ok := a.(iface); ok && it.t != nil {
			if _, isBasic := it.t.Underlying().(*types.Basic); isBasic && !i.hasMethod(it.t, "String") && !i.hasMethod(it.t, "Error") {
				inner = it.v
			}
		}
		switch x := inner.(type) {
		case bool, int, int8, int16, int32, int64, uint, uint8, uint16, uint32, uint64, uintptr, float32, float64, string:
			if verb == 'w' {
				directive = directive[:len(directive)-1] + "v"
			}
			emit(fmt.Sprintf(directive, x))
			continue
		case *symStr:
			if verb == 's' || verb == 'v' {
				out = append(out, x.b...)
				continue
			}
		case []value:
			if verb == 's' && len(directive) == 2 {
				// []byte printed as a string
				allBytes := true
				for _, e := range x {
					if _, ok := e.(uint8); !ok && !isSym(e) {
						allBytes = false
					}
				}
				if allBytes {
					out = append(out, x...)
					continue
				}
			}
		}
		str := i.fmtArg(fr, a, verb)
		if len(directive) > 2 && verb != 'x' {
			emit(fmt.Sprintf(directive[:len(directive)-1]+"s", str))
		} else {
			emit(str)
		}
	}
	return mkStr(out)
}

func (i *interpreter) sprint(fr *frame, args []value, ln bool) value {
	parts := make([]string, len(args))
	for k, a := range args {
		parts[k] = i.fmtArg(fr, a, 'v')
	}
	if ln {
		return strings.Join(parts, " ") + "\n"
	}
	return strings.Join(parts, " ")
}

func (i *interpreter) errorf(fr *frame, format string, args []value) value {
	msg, ok := i.sprintf(fr, format, args).(string)
	if !ok {
		msg = "<error message with symbolic parts>"
	}
	// find %w operands
	var wrapped []iface
	ai := 0
	for k := 0; k < len(format); k++ {
		if format[k] != '%' {
			continue
		}
		k++
		for k < len(format) && strings.IndexByte("+-# 0123456789.*", format[k]) >= 0 {
			k++
		}
		if k >= len(format) {
			break
		}
		if format[k] == '%' {
			continue
		}
		if format[k] == 'w' && ai < len(args) {
			if it, ok := args[ai].(iface); ok && it.t != nil {
				wrapped = append(wrapped, it)
			}
		}
		ai++
	}
	fmtPkg := i.prog.ImportedPackage("fmt")
	switch {
	case len(wrapped) == 0 || fmtPkg == nil:
		return i.mkError(msg)
	case len(wrapped) == 1:
		var v value = structure{msg, wrapped[0]}
		return iface{t: types.NewPointer(fmtPkg.Type("wrapError").Type()), v: &v}
	default:
		errs := make([]value, len(wrapped))
		for k, w := range wrapped {
			errs[k] = w
		}
		var v value = structure{msg, errs}
		return iface{t: types.NewPointer(fmtPkg.Type("wrapErrors").Type()), v: &v}
	}
}

func (i *interpreter) writeTo(fr *frame, w iface, s value) value {
	str, _ := s.(string)
	r := i.invoke(fr, w, "Write", strBytes(str))
	return r
}

// obsString renders an observed value in a form comparable with the native run.
func (i *interpreter) obsString(v value) string {
	if it, ok := v.(iface); ok {
		v = it.v
	}
	if i.p.concrete || !containsSym(v) {
		return canonObs(v)
	}
	return "<symbolic>"
}

func containsSym(v value) bool {
	switch v := v.(type) {
	case *Term, *symStr, *opaqueSlice:
		return true
	case []value:
		for _, e := range v {
			if containsSym(e) {
				return true
			}
		}
	case structure:
		for _, e := range v {
			if containsSym(e) {
				return true
			}
		}
	case array:
		for _, e := range v {
			if containsSym(e) {
				return true
			}
		}
	}
	return false
}

func canonObs(v value) string {
	switch v := v.(type) {
	case bool, int, int8, int16, int32, int64, uint, uint8, uint16, uint32, uint64, uintptr:
		return fmt.Sprint(v)
	case string:
		return fmt.Sprintf("%q", v)
	case []value:
		parts := make([]string, len(v))
		for k, e := range v {
			parts[k] = canonObs(e)
		}
		return "[" + strings.Join(parts, " ") + "]"
	case array:
		return canonObs([]value(v))
	}
	return toString(v)
}

// ---------------------------------------------------------------------
// math/big.Int model: {neg bool; abs nat} where abs holds the magnitude as
// big-endian *bytes* (values in this code base are unsigned, <= 32 bytes).

func bigBytes(fr *frame, p value) []value {
	ptr := fr.ptr(p)
	st := (*ptr).(structure)
	if neg, ok := st[0].(bool); !ok || neg {
		unsupported("negative big.Int")
	}
	b, _ := st[1].([]value)
	return b
}

func init() {
	natives["math/big.NewInt"] = func(fr *frame, a []value) value {
		x, ok := a[0].(int64)
		if !ok || x < 0 {
			unsupported("big.NewInt of a symbolic or negative value")
		}
		var b []value
		for s := 56; s >= 0; s -= 8 {
			b = append(b, uint8(x>>uint(s)))
		}
		var v value = structure{false, b}
		return &v
	}
	natives["(*math/big.Int).SetBytes"] = func(fr *frame, a []value) value {
		ptr := fr.ptr(a[0])
		st := (*ptr).(structure)
		st[0] = false
		st[1] = append([]value{}, a[1].([]value)...)
		return a[0]
	}
	natives["(*math/big.Int).Bytes"] = func(fr *frame, a []value) value {
		b := bigBytes(fr, a[0])
		k := 0
		for k < len(b) {
			if z, ok := b[k].(uint8); ok && z == 0 {
				k++
				continue
			}
			if isSym(b[k]) {
				unsupported("big.Int.Bytes with a symbolic leading byte")
			}
			break
		}
		return append([]value{}, b[k:]...)
	}
	natives["(*math/big.Int).Cmp"] = func(fr *frame, a []value) value {
		x, y := bigBytes(fr, a[0]), bigBytes(fr, a[1])
		n := len(x)
		if len(y) > n {
			n = len(y)
		}
		pad := func(b []value) []value {
			out := make([]value, 0, n)
			for k := len(b); k < n; k++ {
				out = append(out, uint8(0))
			}
			return append(out, b...)
		}
		return fr.i.bytesCompare(pad(x), pad(y))
	}
	natives["(*math/big.Int).Sign"] = func(fr *frame, a []value) value {
		b := bigBytes(fr, a[0])
		var nz value = false
		for _, e := range b {
			nz = fr.i.vOr(nz, fr.i.vNot(fr.i.eqv(types.Typ[types.Uint8], e, uint8(0))))
		}
		if fr.i.truth(nz) {
			return 1
		}
		return 0
	}
	natives["(*math/big.Int).String"] = func(fr *frame, a []value) value { return "<big.Int>" }
}
