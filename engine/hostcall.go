package main

// Call-through to pure host functions on concrete arguments.

import (
	"encoding/base32"
	"encoding/base64"
	"encoding/hex"
	"fmt"
	"path"
	"reflect"
	"strconv"
	"strings"
	"unicode/utf8"
)

var errorRType = reflect.TypeOf((*error)(nil)).Elem()

// hostFn wraps a host function whose parameters and results are bools,
// integers, floats, strings, []byte, []string or error.
func hostFn(f any) nativeFn {
	fv := reflect.ValueOf(f)
	ft := fv.Type()
	return func(fr *frame, args []value) value {
		in := make([]reflect.Value, len(args))
		for k, a := range args {
			in[k] = toHost(a, ft.In(k))
		}
		out := fv.Call(in)
		res := make([]value, len(out))
		for k, o := range out {
			res[k] = fromHost(fr.i, o)
		}
		switch len(res) {
		case 0:
			return nil
		case 1:
			return res[0]
		}
		return tuple(res)
	}
}

func toHost(a value, t reflect.Type) reflect.Value {
	switch t.Kind() {
	case reflect.String:
		s, ok := a.(string)
		if !ok {
			unsupported("host call with symbolic/non-string argument %T", a)
		}
		return reflect.ValueOf(s).Convert(t)
	case reflect.Slice:
		if t.Elem().Kind() == reflect.Uint8 {
			return reflect.ValueOf(concBytes(a)).Convert(t)
		}
		if t.Elem().Kind() == reflect.String {
			xs := a.([]value)
			out := make([]string, len(xs))
			for k, e := range xs {
				out[k] = e.(string)
			}
			return reflect.ValueOf(out)
		}
	case reflect.Bool, reflect.Int, reflect.Int8, reflect.Int16, reflect.Int32, reflect.Int64,
		reflect.Uint, reflect.Uint8, reflect.Uint16, reflect.Uint32, reflect.Uint64, reflect.Uintptr, reflect.Float32, reflect.Float64:
		if isSym(a) {
			unsupported("host call with symbolic argument")
		}
		return reflect.ValueOf(a).Convert(t)
	}
	unsupported("host call: parameter type %s", t)
	return reflect.Value{}
}

func fromHost(i *interpreter, o reflect.Value) value {
	t := o.Type()
	if t == errorRType {
		if o.IsNil() {
			return iface{}
		}
		return i.mkError(o.Interface().(error).Error())
	}
	switch t.Kind() {
	case reflect.String:
		return o.String()
	case reflect.Bool:
		return o.Bool()
	case reflect.Int:
		return int(o.Int())
	case reflect.Int8:
		return int8(o.Int())
	case reflect.Int16:
		return int16(o.Int())
	case reflect.Int32:
		return int32(o.Int())
	case reflect.Int64:
		return o.Int()
	case reflect.Uint:
		return uint(o.Uint())
	case reflect.Uint8:
		return uint8(o.Uint())
	case reflect.Uint16:
		return uint16(o.Uint())
	case reflect.Uint32:
		return uint32(o.Uint())
	case reflect.Uint64:
		return o.Uint()
	case reflect.Float64:
		return o.Float()
	case reflect.Float32:
		return float32(o.Float())
	case reflect.Slice:
		if t.Elem().Kind() == reflect.Uint8 {
			if o.IsNil() {
				return []value(nil)
			}
			return bytesVal(o.Bytes())
		}
		if t.Elem().Kind() == reflect.String {
			out := make([]value, o.Len())
			for k := range out {
				out[k] = o.Index(k).String()
			}
			return out
		}
	}
	unsupported("host call: result type %s", t)
	return nil
}

// hostOrInterp uses the host function when all arguments are concrete and
// falls back to interpreting the SSA body otherwise.
func hostOrInterp(f any) nativeFn {
	h := hostFn(f)
	return func(fr *frame, args []value) value {
		for _, a := range args {
			if containsSym(a) {
				return fr.interpretBody(args)
			}
		}
		return h(fr, args)
	}
}

// interpretBody runs the SSA body of fr.fn ignoring its native.
func (fr *frame) interpretBody(args []value) value {
	return callSSABody(fr.i, fr.caller, fr.callpos, fr.fn, args, nil)
}

func init() {
	for name, f := range map[string]any{
		"strconv.Itoa":             strconv.Itoa,
		"strconv.Atoi":             strconv.Atoi,
		"strconv.FormatInt":        strconv.FormatInt,
		"strconv.FormatUint":       strconv.FormatUint,
		"strconv.ParseUint":        strconv.ParseUint,
		"strconv.ParseBool":        strconv.ParseBool,
		"strconv.ParseFloat":       strconv.ParseFloat,
		"strconv.FormatFloat":      strconv.FormatFloat,
		"strconv.Quote":            strconv.Quote,
		"strconv.Unquote":          strconv.Unquote,
		"strconv.AppendInt":        strconv.AppendInt,
		"strconv.AppendUint":       strconv.AppendUint,
		"strconv.AppendQuote":      strconv.AppendQuote,
		"strings.ToLower":          strings.ToLower,
		"strings.ToUpper":          strings.ToUpper,
		"strings.TrimSpace":        strings.TrimSpace,
		"strings.Fields":           strings.Fields,
		"strings.EqualFold":        strings.EqualFold,
		"strings.Repeat":           strings.Repeat,
		"strings.Split":            strings.Split,
		"strings.SplitN":           strings.SplitN,
		"strings.Join":             strings.Join,
		"strings.HasPrefix":        strings.HasPrefix,
		"strings.HasSuffix":        strings.HasSuffix,
		"strings.TrimPrefix":       strings.TrimPrefix,
		"strings.TrimSuffix":       strings.TrimSuffix,
		"strings.Trim":             strings.Trim,
		"strings.TrimLeft":         strings.TrimLeft,
		"strings.TrimRight":        strings.TrimRight,
		"strings.Contains":         strings.Contains,
		"strings.LastIndex":        strings.LastIndex,
		"strings.LastIndexByte":    strings.LastIndexByte,
		"strings.Count":            strings.Count,
		"strings.Replace":          strings.Replace,
		"strings.ReplaceAll":       strings.ReplaceAll,
		"strings.Compare":          strings.Compare,
		"strings.ContainsRune":     strings.ContainsRune,
		"strings.IndexRune":        strings.IndexRune,
		"strings.IndexAny":         strings.IndexAny,
		"unicode/utf8.ValidString": utf8.ValidString,
		"unicode/utf8.RuneCountInString": utf8.RuneCountInString,
		"encoding/hex.EncodeToString":    hex.EncodeToString,
		"encoding/hex.DecodeString":      hex.DecodeString,
		"path.Clean":                     path.Clean,
	} {
		natives[name] = hostOrInterp(f)
	}
	natives["(*encoding/base32.Encoding).EncodeToString"] = func(fr *frame, a []value) value {
		enc := fr.i.base32Of(a[0].(*value))
		return enc.EncodeToString(concBytes(a[1]))
	}
	natives["(*encoding/base32.Encoding).DecodeString"] = func(fr *frame, a []value) value {
		enc := fr.i.base32Of(a[0].(*value))
		s, ok := a[1].(string)
		if !ok {
			unsupported("base32 decode of a symbolic string")
		}
		b, err := enc.DecodeString(s)
		if err != nil {
			return tuple{[]value(nil), fr.i.mkError(err.Error())}
		}
		return tuple{bytesVal(b), iface{}}
	}
	natives["(*encoding/base64.Encoding).EncodeToString"] = func(fr *frame, a []value) value {
		return base64.StdEncoding.EncodeToString(concBytes(a[1]))
	}
	_ = fmt.Sprint
}

// base32Of rebuilds the host encoder from the interpreted *Encoding (alphabet
// and padding character are its first and third fields).
func (i *interpreter) base32Of(p *value) *base32.Encoding {
	st := (*p).(structure)
	alpha := st[0].(array)
	buf := make([]byte, len(alpha))
	for k, e := range alpha {
		buf[k] = e.(uint8)
	}
	enc := base32.NewEncoding(string(buf))
	pad := st[2].(int32)
	return enc.WithPadding(rune(pad))
}
