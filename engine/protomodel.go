package main

// Generic proto3 model for generated message structs, driven by the
// `protobuf:"..."` struct tags: Size, Marshal, Unmarshal, Clone. Lengths may be
// symbolic for Size; Marshal/Unmarshal need concrete lengths (contents may be
// symbolic). Unknown fields are assumed empty. Validated natively against
// google.golang.org/protobuf by the harness-side differential tests.

import (
	"fmt"
	"go/token"
	"go/types"
	"reflect"
	"strconv"
	"strings"
	"unicode/utf8"
)

type pbField struct {
	idx   int
	wire  string // "varint" | "bytes"
	num   int
	rep   bool
	ftype types.Type
}

func pbFields(st *types.Struct) []pbField {
	var out []pbField
	for k := 0; k < st.NumFields(); k++ {
		tag := reflect.StructTag(st.Tag(k)).Get("protobuf")
		if tag == "" {
			continue
		}
		parts := strings.Split(tag, ",")
		if len(parts) < 3 {
			continue
		}
		n, _ := strconv.Atoi(parts[1])
		out = append(out, pbField{idx: k, wire: parts[0], num: n, rep: parts[2] == "rep", ftype: st.Field(k).Type()})
	}
	return out
}

func pbStructOf(t types.Type) (*types.Struct, types.Type) {
	if p, ok := t.Underlying().(*types.Pointer); ok {
		t = p.Elem()
	}
	st, ok := t.Underlying().(*types.Struct)
	if !ok {
		unsupported("proto model: %s is not a message struct", t)
	}
	return st, t
}

func tagLen(num int) int {
	v := uint64(num) << 3
	n := 1
	for v >= 0x80 {
		v >>= 7
		n++
	}
	return n
}

var tInt = types.Typ[types.Int]
var tBool = types.Typ[types.Bool]

func (i *interpreter) add(a, b value) value { return i.binop(token.ADD, tInt, tInt, tInt, a, b) }

// varintLenV returns the varint length of v (a uint64-valued value) as an int value.
func (i *interpreter) varintLenV(v value) value {
	if t, ok := v.(*Term); ok {
		tc := i.tc
		t64 := t
		if t.w < 64 {
			t64 = tc.ZExt(t, 64)
		}
		res := tc.Const(64, 1)
		for s := uint(7); s < 64; s += 7 {
			res = tc.Bin(OpAdd, res, tc.Ite(tc.Cmp(OpUle, tc.Const(64, uint64(1)<<s), t64), tc.Const(64, 1), tc.Const(64, 0)))
		}
		return wrapK(types.Int, res)
	}
	x := asUint64orInt(v)
	n := 1
	for x >= 0x80 {
		x >>= 7
		n++
	}
	return n
}

func (i *interpreter) lenOf(v value) value {
	switch v := v.(type) {
	case []value:
		return len(v)
	case *opaqueSlice:
		return v.n
	case string:
		return len(v)
	case *symStr:
		return len(v.b)
	}
	panic(engineFault{fmt.Sprintf("proto model: length of %T", v)})
}

// asU64 converts an integer value of static type t to a uint64-valued value
// with protobuf's sign extension (int32/enum -> int64 -> uint64).
func (i *interpreter) asU64(t types.Type, v value) value {
	return i.conv(types.Typ[types.Uint64], types.Typ[types.Int64], i.conv(types.Typ[types.Int64], t, v))
}

func (i *interpreter) ite(c value, a, b value) value {
	switch c := c.(type) {
	case bool:
		if c {
			return a
		}
		return b
	case *Term:
		return wrapK(types.Int, i.tc.Ite(c, i.toTerm(a), i.toTerm(b)))
	}
	panic(engineFault{"ite"})
}

func (i *interpreter) protoSize(t types.Type, st structure) value {
	ts, _ := pbStructOf(t)
	var size value = 0
	for _, f := range pbFields(ts) {
		fv := st[f.idx]
		tl := tagLen(f.num)
		switch {
		case f.wire == "varint" && !f.rep:
			if b, ok := fv.(bool); ok {
				if b {
					size = i.add(size, tl+1)
				}
				continue
			}
			u := i.asU64(f.ftype, fv)
			isZero := i.eqv(types.Typ[types.Uint64], u, uint64(0))
			size = i.add(size, i.ite(isZero, 0, i.add(tl, i.varintLenV(u))))
		case f.wire == "bytes" && !f.rep:
			if p, ok := fv.(*value); ok { // sub-message
				if p == nil {
					continue
				}
				sub := i.protoSize(f.ftype, (*p).(structure))
				size = i.add(size, i.add(i.add(tl, i.varintLenV(i.conv(types.Typ[types.Uint64], tInt, sub))), sub))
				continue
			}
			n := i.lenOf(fv)
			nz := i.binop(token.GTR, tInt, tInt, tBool, n, 0)
			size = i.add(size, i.ite(nz, i.add(i.add(tl, i.varintLenV(i.conv(types.Typ[types.Uint64], tInt, n))), n), 0))
		case f.wire == "bytes" && f.rep:
			elems, _ := fv.([]value)
			et := f.ftype.Underlying().(*types.Slice).Elem()
			for _, e := range elems {
				var n value
				if p, ok := e.(*value); ok {
					if p == nil {
						n = 0
					} else {
						n = i.protoSize(et, (*p).(structure))
					}
				} else {
					n = i.lenOf(e)
				}
				size = i.add(size, i.add(i.add(tl, i.varintLenV(i.conv(types.Typ[types.Uint64], tInt, n))), n))
			}
		default:
			unsupported("proto model: field kind %s rep=%v", f.wire, f.rep)
		}
	}
	return size
}

func appendVarint(out []value, x uint64) []value {
	for x >= 0x80 {
		out = append(out, uint8(x)|0x80)
		x >>= 7
	}
	return append(out, uint8(x))
}

func concLen(v value) int {
	switch v := v.(type) {
	case []value:
		return len(v)
	case string:
		return len(v)
	case *symStr:
		return len(v.b)
	}
	unsupported("proto model: Marshal with non-concrete length %T", v)
	return 0
}

func rawBytes(v value) []value {
	switch v := v.(type) {
	case []value:
		return v
	case string, *symStr:
		return strBytes(v)
	}
	unsupported("proto model: bytes of %T", v)
	return nil
}

func (i *interpreter) protoMarshal(t types.Type, st structure) []value {
	ts, _ := pbStructOf(t)
	out := []value{}
	for _, f := range pbFields(ts) {
		fv := st[f.idx]
		key := uint64(f.num) << 3
		switch {
		case f.wire == "varint" && !f.rep:
			var u uint64
			if b, ok := fv.(bool); ok {
				if b {
					u = 1
				}
			} else {
				uv := i.asU64(f.ftype, fv)
				x, ok := uv.(uint64)
				if !ok {
					unsupported("proto model: Marshal of a symbolic varint field")
				}
				u = x
			}
			if u != 0 {
				out = appendVarint(out, key)
				out = appendVarint(out, u)
			}
		case f.wire == "bytes" && !f.rep:
			if p, ok := fv.(*value); ok {
				if p == nil {
					continue
				}
				sub := i.protoMarshal(f.ftype, (*p).(structure))
				out = appendVarint(out, key|2)
				out = appendVarint(out, uint64(len(sub)))
				out = append(out, sub...)
				continue
			}
			if n := concLen(fv); n > 0 {
				out = appendVarint(out, key|2)
				out = appendVarint(out, uint64(n))
				out = append(out, rawBytes(fv)...)
			}
		case f.wire == "bytes" && f.rep:
			elems, _ := fv.([]value)
			et := f.ftype.Underlying().(*types.Slice).Elem()
			for _, e := range elems {
				var b []value
				if p, ok := e.(*value); ok {
					if p != nil {
						b = i.protoMarshal(et, (*p).(structure))
					}
				} else {
					b = rawBytes(e)
				}
				out = appendVarint(out, key|2)
				out = appendVarint(out, uint64(len(b)))
				out = append(out, b...)
			}
		}
	}
	return out
}

func readVarint(b []value, pos int) (uint64, int, bool) {
	var x uint64
	var s uint
	for k := 0; k < 10; k++ {
		if pos >= len(b) {
			return 0, pos, false
		}
		c, ok := b[pos].(uint8)
		if !ok {
			unsupported("proto model: Unmarshal with a symbolic header byte")
		}
		pos++
		x |= uint64(c&0x7f) << s
		if c < 0x80 {
			return x, pos, true
		}
		s += 7
	}
	return 0, pos, false
}

// protoUnmarshal fills st (already zeroed) from b; returns an error message or "".
func (i *interpreter) protoUnmarshal(t types.Type, st structure, b []value) string {
	ts, _ := pbStructOf(t)
	fields := map[int]pbField{}
	for _, f := range pbFields(ts) {
		fields[f.num] = f
	}
	pos := 0
	for pos < len(b) {
		key, np, ok := readVarint(b, pos)
		if !ok {
			return "proto: cannot parse invalid wire-format data"
		}
		pos = np
		num, wt := int(key>>3), int(key&7)
		if num == 0 {
			return "proto: cannot parse invalid wire-format data"
		}
		f, known := fields[num]
		switch wt {
		case 0:
			v, np, ok := readVarint(b, pos)
			if !ok {
				return "proto: cannot parse invalid wire-format data"
			}
			pos = np
			if known && f.wire == "varint" {
				k, _ := basicKind(f.ftype)
				st[f.idx] = fromBits(k, v)
			}
		case 2:
			n, np, ok := readVarint(b, pos)
			if !ok || np+int(n) > len(b) || int(n) < 0 {
				return "proto: cannot parse invalid wire-format data"
			}
			pos = np
			payload := b[pos : pos+int(n)]
			pos += int(n)
			if !known || f.wire != "bytes" {
				continue
			}
			mk := func(et types.Type) (value, string) {
				switch u := et.Underlying().(type) {
				case *types.Pointer:
					sub := zero(u.Elem()).(structure)
					if msg := i.protoUnmarshal(et, sub, payload); msg != "" {
						return nil, msg
					}
					var v value = sub
					return &v, ""
				case *types.Basic: // string
					s := mkStr(payload)
					if cs, ok := s.(string); ok && !utf8.ValidString(cs) {
						return nil, "proto: field contains invalid UTF-8"
					}
					return s, ""
				}
				return append([]value{}, payload...), ""
			}
			if f.rep {
				et := f.ftype.Underlying().(*types.Slice).Elem()
				v, msg := mk(et)
				if msg != "" {
					return msg
				}
				cur, _ := st[f.idx].([]value)
				st[f.idx] = append(cur, v)
			} else {
				v, msg := mk(f.ftype)
				if msg != "" {
					return msg
				}
				st[f.idx] = v
			}
		case 1:
			pos += 8
		case 5:
			pos += 4
		default:
			return "proto: cannot parse invalid wire-format data"
		}
		if pos > len(b) {
			return "proto: cannot parse invalid wire-format data"
		}
	}
	return ""
}

func (i *interpreter) protoClone(t types.Type, st structure) structure {
	ts, nt := pbStructOf(t)
	out := zero(nt).(structure)
	for _, f := range pbFields(ts) {
		fv := st[f.idx]
		switch x := fv.(type) {
		case *value:
			if x != nil {
				var v value = i.protoClone(f.ftype, (*x).(structure))
				out[f.idx] = &v
			}
		case []value:
			if x == nil {
				continue
			}
			cp := make([]value, len(x))
			for k, e := range x {
				switch e := e.(type) {
				case *value:
					if e != nil {
						et := f.ftype.Underlying().(*types.Slice).Elem()
						var v value = i.protoClone(et, (*e).(structure))
						cp[k] = &v
					} else {
						cp[k] = e
					}
				case []value:
					cp[k] = append([]value{}, e...)
				default:
					cp[k] = e
				}
			}
			out[f.idx] = cp
		default:
			out[f.idx] = fv
		}
	}
	return out
}

func msgArg(fr *frame, v value) (types.Type, structure, *value) {
	it := v.(iface)
	if it.t == nil {
		unsupported("proto model: nil message")
	}
	p := it.v.(*value)
	if p == nil {
		return it.t, nil, nil
	}
	return it.t, (*p).(structure), p
}

func init() {
	natives["google.golang.org/protobuf/proto.Size"] = func(fr *frame, a []value) value {
		t, st, _ := msgArg(fr, a[0])
		if st == nil {
			return 0
		}
		return fr.i.protoSize(t, st)
	}
	natives["google.golang.org/protobuf/proto.Marshal"] = func(fr *frame, a []value) value {
		t, st, _ := msgArg(fr, a[0])
		if st == nil {
			return tuple{[]value(nil), iface{}}
		}
		return tuple{fr.i.protoMarshal(t, st), iface{}}
	}
	natives["google.golang.org/protobuf/proto.Unmarshal"] = func(fr *frame, a []value) value {
		t, st, _ := msgArg(fr, a[1])
		if st == nil {
			unsupported("proto.Unmarshal into nil message")
		}
		b, ok := a[0].([]value)
		if !ok {
			unsupported("proto.Unmarshal of %T", a[0])
		}
		ts, _ := pbStructOf(t)
		for _, f := range pbFields(ts) {
			st[f.idx] = zero(f.ftype)
		}
		if msg := fr.i.protoUnmarshal(t, st, b); msg != "" {
			return fr.i.mkError(msg)
		}
		return iface{}
	}
	natives["google.golang.org/protobuf/proto.Clone"] = func(fr *frame, a []value) value {
		t, st, _ := msgArg(fr, a[0])
		if st == nil {
			return a[0]
		}
		var v value = fr.i.protoClone(t, st)
		return iface{t: t, v: &v}
	}
}
