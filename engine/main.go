package main

import (
	"encoding/json"
	"flag"
	"fmt"
	"go/types"
	"os"
	"path/filepath"
	"regexp"
	"runtime/debug"
	"runtime/pprof"
	"sort"
	"strings"
	"sync"
	"time"

	"golang.org/x/tools/go/packages"
	"golang.org/x/tools/go/ssa"
	"golang.org/x/tools/go/ssa/ssautil"
)

type HarnessSpec struct {
	Pkg       string         `json:"pkg"`  // directory relative to /repo
	Func      string         `json:"func"` // harness function name
	Quick     map[string]int `json:"quick"`
	Thorough  map[string]int `json:"thorough"`
	MaxSteps  int64          `json:"max_steps"`
	TimeoutS  int            `json:"timeout_s"`
	Note      string         `json:"note"`
	Bounds    string         `json:"bounds"`
	Tiers     []string       `json:"tiers"` // default: both
	NoNative  bool           `json:"no_native_replay"`
	NoSummaries []string     `json:"no_summaries"`
	Synctest  bool           `json:"synctest"`
	intercept map[string]string
	pkg       *ssa.Package
}

type PropSpec struct {
	Harnesses   []*HarnessSpec `json:"harnesses"`
	Assumptions []string       `json:"assumptions"`
	Outside     []string       `json:"outside"`
}

type Specs struct {
	Properties map[string]*PropSpec `json:"properties"`
}

type Loaded struct {
	prog            *ssa.Program
	pkgs            map[string]*ssa.Package
	sizes           types.Sizes
	runtimeErrorT   types.Type
	solverTimeoutMs int
	overlay         map[string][]byte
	repo            string
	verifDir        string
	loadTime        time.Duration
	noSummary       map[string]bool
	bigMu           sync.Mutex
	bigInits        map[*ssa.Package]*bigInitInfo
	tryLockFields   map[string]bool // struct fields on which the repository calls TryLock/TryRLock
}

func (h *HarnessSpec) interceptFor(L *Loaded, name, oname string) *ssa.Function {
	if h.intercept == nil {
		return nil
	}
	tgt, ok := h.intercept[name]
	if !ok && oname != "" {
		tgt, ok = h.intercept[oname]
	}
	if !ok {
		return nil
	}
	fn := h.pkg.Func(tgt)
	if fn == nil {
		panic(engineFault{"intercept target not found: " + tgt})
	}
	return fn
}

var interceptRe = regexp.MustCompile(`(?m)^//verif:intercept\s+(\S+)\s+(\S.*?)\s*=\s*(\S+)\s*$`)
var pkgClauseRe = regexp.MustCompile(`(?m)^package\s+(\w+)`)

// buildOverlay maps every harness file under verif/harness/<pkgdir> into the
// repository tree and generates the runtime file for each harnessed package.
func buildOverlay(repo, verifDir string, pkgDirs []string) (map[string][]byte, map[string]map[string]map[string]string, error) {
	ov := map[string][]byte{}
	// intercepts[pkgdir][harnessFunc][callee] = model
	intercepts := map[string]map[string]map[string]string{}
	rt, err := os.ReadFile(filepath.Join(verifDir, "harness", "rt", "zz_verif_rt.go.txt"))
	if err != nil {
		return nil, nil, err
	}
	for _, pd := range pkgDirs {
		dir := filepath.Join(verifDir, "harness", pd)
		ents, err := os.ReadDir(dir)
		if err != nil {
			return nil, nil, err
		}
		pkgName := ""
		intercepts[pd] = map[string]map[string]string{}
		for _, e := range ents {
			if e.IsDir() || !strings.HasSuffix(e.Name(), ".go") {
				continue
			}
			src, err := os.ReadFile(filepath.Join(dir, e.Name()))
			if err != nil {
				return nil, nil, err
			}
			if strings.HasSuffix(e.Name(), "_test.go") {
				continue // replay driver: only used natively
			}
			if m := pkgClauseRe.FindSubmatch(src); m != nil && pkgName == "" {
				pkgName = string(m[1])
			}
			for _, m := range interceptRe.FindAllSubmatch(src, -1) {
				h, callee, model := string(m[1]), string(m[2]), string(m[3])
				if intercepts[pd][h] == nil {
					intercepts[pd][h] = map[string]string{}
				}
				intercepts[pd][h][callee] = model
			}
			ov[filepath.Join(repo, repoDirOf(pd), e.Name())] = src
		}
		if pkgName == "" {
			return nil, nil, fmt.Errorf("no harness files in %s", dir)
		}
		ov[filepath.Join(repo, repoDirOf(pd), "zz_verif_rt.go")] = []byte(strings.Replace(string(rt), "package PKGNAME", "package "+pkgName, 1))
	}
	return ov, intercepts, nil
}

func loadProgram(repo, verifDir string, pkgDirs []string) (*Loaded, map[string]map[string]map[string]string, error) {
	t0 := time.Now()
	ov, intercepts, err := buildOverlay(repo, verifDir, pkgDirs)
	if err != nil {
		return nil, nil, err
	}
	cfg := &packages.Config{
		Mode:       packages.LoadAllSyntax,
		Dir:        repo,
		BuildFlags: []string{"-tags=verif,purego", "-mod=mod"},
		Overlay:    ov,
		Env:        append(os.Environ(), "GOFLAGS=-mod=mod", "GOPROXY=off", "GOTOOLCHAIN=local", "CGO_ENABLED=0"),
	}
	var patterns []string
	for _, pd := range pkgDirs {
		patterns = append(patterns, "./"+repoDirOf(pd))
	}
	initial, err := packages.Load(cfg, patterns...)
	if err != nil {
		return nil, nil, err
	}
	nerr := 0
	packages.Visit(initial, nil, func(p *packages.Package) {
		for _, e := range p.Errors {
			if nerr < 20 {
				fmt.Fprintf(os.Stderr, "load error: %s: %v\n", p.PkgPath, e)
			}
			nerr++
		}
	})
	if nerr > 0 {
		return nil, nil, fmt.Errorf("%d package load errors (harness or repository does not type-check)", nerr)
	}
	tLoad := time.Since(t0)
	prog, _ := ssautil.AllPackages(initial, ssa.InstantiateGenerics|ssa.SanityCheckFunctions&0)
	prog.Build()
	fmt.Printf("packages.Load %.1fs, ssa build %.1fs\n", tLoad.Seconds(), (time.Since(t0) - tLoad).Seconds())
	L := &Loaded{prog: prog, pkgs: map[string]*ssa.Package{}, sizes: &types.StdSizes{WordSize: 8, MaxAlign: 8},
		solverTimeoutMs: 8000, overlay: ov, repo: repo, verifDir: verifDir, bigInits: map[*ssa.Package]*bigInitInfo{}}
	for _, p := range prog.AllPackages() {
		L.pkgs[p.Pkg.Path()] = p
	}
	if rp := prog.ImportedPackage("runtime"); rp != nil {
		L.runtimeErrorT = rp.Type("errorString").Type()
	}
	L.tryLockFields = scanTryLockFields(prog)
	L.loadTime = time.Since(t0)
	return L, intercepts, nil
}

const repoModule = "github.com/libp2p/go-libp2p-kad-dht"

// repoDirOf maps a harness directory name to the repository directory
// ("root" is the module's top-level package).
func repoDirOf(pd string) string {
	if pd == "root" {
		return "."
	}
	return pd
}

func pkgPathOf(dir string) string {
	if dir == "." || dir == "" || dir == "root" {
		return repoModule
	}
	return repoModule + "/" + dir
}

type harnessResult struct {
	Spec *HarnessSpec
	E    *Explorer
	Wall time.Duration
}

func main() {
	var (
		repo     = flag.String("repo", "/repo", "repository root")
		verifDir = flag.String("verif", "/verif", "verification directory")
		id       = flag.String("id", "", "property id")
		tier     = flag.String("tier", "quick", "quick|thorough")
		only     = flag.String("harness", "", "run only this harness function")
		workers  = flag.Int("workers", 16, "worker count")
		verbose  = flag.Bool("v", false, "verbose")
		trace    = flag.Bool("trace", false, "trace instructions (1 worker)")
		solver   = flag.String("solver", "z3-new", "z3|z3-new|cvc5")
		replay   = flag.String("replay", "", "replay file: run the harness concretely in the interpreter and natively")
		noNative = flag.Bool("no-native", false, "skip native replay of counterexamples")
		validate = flag.Int("validate", -1, "passing paths per harness to re-run natively (encoder validation); -1 = tier default")
		setP     = flag.String("set", "", "override params: K=3,N=4")
		budgetS  = flag.Int("budget", 0, "wall-clock budget per harness in seconds (0 = spec default)")
	)
	cpuprof := flag.String("cpuprofile", "", "write cpu profile")
	flag.Parse()
	debug.SetGCPercent(400)
	if *cpuprof != "" {
		f, _ := os.Create(*cpuprof)
		pprof.StartCPUProfile(f)
		defer pprof.StopCPUProfile()
	}
	seed := 0
	if s := os.Getenv("VERIF_SEED"); s != "" {
		fmt.Sscan(s, &seed)
	}
	if *replay != "" {
		os.Exit(replayMain(*repo, *verifDir, *replay, *verbose, *trace))
	}
	if *id == "" {
		fmt.Fprintln(os.Stderr, "usage: symgo -id Cxx [-tier quick|thorough]")
		os.Exit(2)
	}
	specs, err := readSpecs(*verifDir)
	if err != nil {
		fmt.Fprintln(os.Stderr, "specs:", err)
		os.Exit(2)
	}
	ps := specs.Properties[*id]
	if ps == nil {
		fmt.Fprintf(os.Stderr, "no harnesses registered for %s\n", *id)
		os.Exit(2)
	}
	t0 := time.Now()
	var hs []*HarnessSpec
	pkgSet := map[string]bool{}
	for _, h := range ps.Harnesses {
		if *only != "" && h.Func != *only {
			continue
		}
		if len(h.Tiers) > 0 {
			ok := false
			for _, t := range h.Tiers {
				if t == *tier {
					ok = true
				}
			}
			if !ok && *only == "" {
				continue
			}
		}
		hs = append(hs, h)
		pkgSet[h.Pkg] = true
	}
	if len(hs) == 0 {
		fmt.Fprintln(os.Stderr, "no harness selected")
		os.Exit(2)
	}
	var pkgDirs []string
	for p := range pkgSet {
		pkgDirs = append(pkgDirs, p)
	}
	sort.Strings(pkgDirs)
	L, intercepts, err := loadProgram(*repo, *verifDir, pkgDirs)
	if err != nil {
		fmt.Printf("INCONCLUSIVE reason=load-failed: %v\n", err)
		writeEvidenceFailure(*verifDir, *id, *tier, seed, "load failed: "+err.Error(), time.Since(t0))
		os.Exit(2)
	}
	fmt.Printf("loaded %d packages, SSA built in %.1fs\n", len(L.pkgs), L.loadTime.Seconds())

	var results []*harnessResult
	for _, h := range hs {
		sp := L.pkgs[pkgPathOf(h.Pkg)]
		if sp == nil {
			fmt.Printf("INCONCLUSIVE reason=package %s not loaded\n", h.Pkg)
			os.Exit(2)
		}
		h.pkg = sp
		h.intercept = map[string]string{}
		for k, v := range intercepts[h.Pkg]["*"] {
			h.intercept[k] = v
		}
		for k, v := range intercepts[h.Pkg][h.Func] {
			h.intercept[k] = v
		}
		fn := sp.Func(h.Func)
		if fn == nil {
			fmt.Printf("INCONCLUSIVE reason=harness %s.%s not found\n", h.Pkg, h.Func)
			os.Exit(2)
		}
		params := map[string]int{}
		src := h.Quick
		if *tier == "thorough" && h.Thorough != nil {
			src = h.Thorough
		}
		for k, v := range src {
			params[k] = v
		}
		if *setP != "" {
			for _, kv := range strings.Split(*setP, ",") {
				var k string
				var v int
				parts := strings.SplitN(kv, "=", 2)
				k = parts[0]
				fmt.Sscan(parts[1], &v)
				params[k] = v
			}
		}
		L.noSummary = map[string]bool{}
		for _, n := range h.NoSummaries {
			L.noSummary[n] = true
		}
		E := &Explorer{L: L, H: h, fn: fn, params: params, solverKind: *solver, verbose: *verbose, trace: *trace, debugForced: os.Getenv("SYMGO_DEBUG_FORCED") != ""}
		E.validateN = *validate
		if E.validateN < 0 {
			E.validateN = 0
			if *tier == "thorough" {
				E.validateN = 2
			}
		}
		if h.NoNative || *noNative {
			E.validateN = 0
		}
		E.maxSteps = h.MaxSteps
		if E.maxSteps == 0 {
			E.maxSteps = 5_000_000
		}
		budget := h.TimeoutS
		if budget == 0 {
			budget = 1200 // ten times what the slowest quick harness needs on an idle 16-core machine
		}
		if *tier == "thorough" {
			budget *= 3
		}
		if *budgetS > 0 {
			budget = *budgetS
		}
		E.deadline = time.Now().Add(time.Duration(budget) * time.Second)
		nw := *workers
		if *trace {
			nw = 1
		}
		th := time.Now()
		E.Run(nw)
		wall := time.Since(th)
		results = append(results, &harnessResult{h, E, wall})
		fmt.Printf("harness %-28s params=%v paths=%d outcomes=%v decisions=%d queries=%d (sat %d unsat %d unk %d) solver=%.1fs wall=%.1fs violations=%d inconclusive=%d\n",
			h.Func, params, E.Paths, E.Outcomes, E.Decisions, E.Queries, E.QSat, E.QUnsat, E.QUnknown, E.SolverTime.Seconds(), wall.Seconds(), len(E.Violations), len(E.Inconclusive))
		if *verbose {
			for l, st := range E.Sites {
				fmt.Printf("    site %-40s reached=%d trivial=%d discharged=%d violated=%d\n", l, st.Reached, st.Trivial, st.Discharged, st.Violated)
			}
		}
		for k, m := range E.Inconclusive {
			if k < 5 {
				fmt.Printf("    inconclusive: %s\n", firstLines(m, 30))
			}
		}
	}
	code := report(L, *id, *tier, seed, ps, results, time.Since(t0), *noNative, *verbose)
	if *cpuprof != "" {
		pprof.StopCPUProfile()
	}
	os.Exit(code)
}

func firstLines(s string, n int) string {
	lines := strings.Split(s, "\n")
	if len(lines) > n {
		lines = lines[:n]
	}
	return strings.Join(lines, "\n")
}

func readSpecs(verifDir string) (*Specs, error) {
	specs := &Specs{Properties: map[string]*PropSpec{}}
	files, _ := filepath.Glob(filepath.Join(verifDir, "harness", "specs", "*.json"))
	sort.Strings(files)
	for _, f := range files {
		b, err := os.ReadFile(f)
		if err != nil {
			return nil, err
		}
		var s Specs
		if err := json.Unmarshal(b, &s); err != nil {
			return nil, fmt.Errorf("%s: %v", f, err)
		}
		for k, v := range s.Properties {
			if old := specs.Properties[k]; old != nil {
				old.Harnesses = append(old.Harnesses, v.Harnesses...)
				old.Assumptions = append(old.Assumptions, v.Assumptions...)
				old.Outside = append(old.Outside, v.Outside...)
			} else {
				specs.Properties[k] = v
			}
		}
	}
	return specs, nil
}


// mutexFieldKey names the struct field a mutex method is called on
// ("<struct type>.<field>"), or "" when the receiver is not a field address.
func mutexFieldKey(v ssa.Value) string {
	fa, ok := v.(*ssa.FieldAddr)
	if !ok {
		return ""
	}
	pt, ok := fa.X.Type().Underlying().(*types.Pointer)
	if !ok {
		return ""
	}
	st, ok := pt.Elem().Underlying().(*types.Struct)
	if !ok || fa.Field >= st.NumFields() {
		return ""
	}
	return types.TypeString(pt.Elem(), nil) + "." + st.Field(fa.Field).Name()
}

// scanTryLockFields finds the mutex fields whose state the repository observes
// with TryLock/TryRLock. A goroutine holding such a mutex can be seen holding
// it, so the scheduler also offers a context switch right after it is acquired
// (for mutexes that are only ever Lock()ed that interleaving is equivalent to
// switching before the acquisition and is not explored).
func scanTryLockFields(prog *ssa.Program) map[string]bool {
	out := map[string]bool{}
	for fn := range ssautil.AllFunctions(prog) {
		if fn.Pkg == nil || !strings.HasPrefix(fn.Pkg.Pkg.Path(), repoModule) {
			continue
		}
		for _, b := range fn.Blocks {
			for _, in := range b.Instrs {
				ci, ok := in.(ssa.CallInstruction)
				if !ok {
					continue
				}
				c := ci.Common()
				callee := c.StaticCallee()
				if callee == nil || len(c.Args) == 0 {
					continue
				}
				switch callee.String() {
				case "(*sync.Mutex).TryLock", "(*sync.RWMutex).TryLock", "(*sync.RWMutex).TryRLock":
					if k := mutexFieldKey(c.Args[0]); k != "" {
						out[k] = true
					}
				}
			}
		}
	}
	return out
}
