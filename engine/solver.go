package main

// One long-lived SMT solver process per worker, driven over stdin/stdout.

import (
	"bufio"
	"fmt"
	"io"
	"os"
	"os/exec"
	"strconv"
	"strings"
	"time"
)

type SatResult int

const (
	Unsat SatResult = iota
	Sat
	Unknown
)

func (r SatResult) String() string { return [...]string{"unsat", "sat", "unknown"}[r] }

type Solver struct {
	kind    string // "z3", "z3-new", "cvc5"
	cmd     *exec.Cmd
	in      io.WriteCloser
	out     *bufio.Reader
	ep      int // epoch: bumped on reset; terms emitted in an older epoch must be re-sent
	tc      *TermCtx
	Queries int
	NSat    int
	NUnsat  int
	NUnk    int
	Time    time.Duration
	timeout int // ms per query
	log     io.Writer
	dead    bool
	pushed  bool
	paths   int
	asserted []*Term // permanent assertions since the last Reset
	OneShots int
	OneShotSolved int
}

func solverArgv(kind string, timeoutMs int) []string {
	switch kind {
	case "z3":
		return []string{"z3", "-in", "-smt2", fmt.Sprintf("-t:%d", timeoutMs)}
	case "z3-new":
		return []string{"z3-new", "-in", "-smt2", fmt.Sprintf("-t:%d", timeoutMs)}
	case "cvc5":
		return []string{"cvc5", "--incremental", "--produce-models", "--lang=smt2", fmt.Sprintf("--tlimit-per=%d", timeoutMs)}
	}
	panic("unknown solver " + kind)
}

func NewSolver(kind string, tc *TermCtx, timeoutMs int) (*Solver, error) {
	argv := solverArgv(kind, timeoutMs)
	cmd := exec.Command(argv[0], argv[1:]...)
	in, err := cmd.StdinPipe()
	if err != nil {
		return nil, err
	}
	outp, err := cmd.StdoutPipe()
	if err != nil {
		return nil, err
	}
	cmd.Stderr = cmd.Stdout
	if err := cmd.Start(); err != nil {
		return nil, err
	}
	s := &Solver{kind: kind, cmd: cmd, in: in, out: bufio.NewReaderSize(outp, 1<<16), tc: tc, timeout: timeoutMs}
	s.ep = 1
	s.preamble()
	return s, nil
}

func (s *Solver) preamble() {
	if s.kind == "cvc5" {
		s.send("(set-logic QF_BV)\n")
	} else {
		s.send("(set-option :produce-models true)\n")
	}
}

func (s *Solver) send(str string) {
	if s.log != nil {
		io.WriteString(s.log, str)
	}
	if _, err := io.WriteString(s.in, str); err != nil {
		s.dead = true
	}
}

func (s *Solver) Close() {
	if s.cmd != nil {
		s.in.Close()
		s.cmd.Process.Kill()
		s.cmd.Wait()
	}
}

// Reset clears all assertions and definitions.
func (s *Solver) Reset() {
	s.asserted = s.asserted[:0]
	s.ep++
	s.paths++
	if s.kind == "cvc5" || s.paths%2000 == 0 {
		s.send("(reset)\n")
		s.preamble()
		s.pushed = false
	}
	if s.pushed {
		s.send("(pop 1)\n")
	}
	s.send("(push 1)\n")
	s.pushed = true
}

// Assert adds t as a permanent assertion (until Reset).
func (s *Solver) Assert(t *Term) {
	s.asserted = append(s.asserted, t)
	var sb strings.Builder
	r := s.tc.Emit(&sb, t, s.ep)
	fmt.Fprintf(&sb, "(assert %s)\n", r)
	s.send(sb.String())
}

func (s *Solver) readLine() (string, error) {
	for {
		l, err := s.out.ReadString('\n')
		if err != nil {
			s.dead = true
			return "", err
		}
		l = strings.TrimSpace(l)
		if l == "" {
			continue
		}
		return l, nil
	}
}

type solverError struct{ msg string }

func (e solverError) Error() string { return "solver: " + e.msg }

// Check runs check-sat under the permanent assertions plus the extra terms.
// If wantModel and the result is Sat, the model of all variables declared in
// this epoch is returned.
func (s *Solver) Check(extra []*Term, wantModel bool) (SatResult, Model, error) {
	var sb strings.Builder
	refs := make([]string, len(extra))
	for i, t := range extra {
		refs[i] = s.tc.Emit(&sb, t, s.ep)
	}
	sb.WriteString("(push 1)\n")
	for _, r := range refs {
		fmt.Fprintf(&sb, "(assert %s)\n", r)
	}
	sb.WriteString("(check-sat)\n")
	t0 := time.Now()
	s.send(sb.String())
	s.Queries++
	line, err := s.readLine()
	s.Time += time.Since(t0)
	if err != nil {
		return Unknown, nil, err
	}
	var res SatResult
	switch line {
	case "sat":
		res = Sat
		s.NSat++
	case "unsat":
		res = Unsat
		s.NUnsat++
	case "unknown", "timeout":
		// the incremental core gave up: retry one-shot in fresh processes
		s.send("(pop 1)\n")
		r2, m2 := s.oneShot(extra, wantModel)
		switch r2 {
		case Sat:
			s.NSat++
		case Unsat:
			s.NUnsat++
		default:
			s.NUnk++
		}
		s.Time += time.Since(t0)
		return r2, m2, nil
	default:
		// error line: inconclusive. Drain nothing more; the process state is
		// suspect, so mark dead.
		s.dead = true
		return Unknown, nil, solverError{line}
	}
	var m Model
	if res == Sat && wantModel {
		m = Model{}
		var vars []*Term
		for _, v := range s.tc.vars {
			if v.emitted == s.ep {
				vars = append(vars, v)
			}
		}
		if len(vars) > 0 {
			var q strings.Builder
			q.WriteString("(get-value (")
			for _, v := range vars {
				q.WriteString(v.ref() + " ")
			}
			q.WriteString("))\n")
			s.send(q.String())
			txt, err := s.readSexp()
			if err != nil {
				return Unknown, nil, err
			}
			if strings.HasPrefix(txt, "(error") {
				s.dead = true
				return Unknown, nil, solverError{txt}
			}
			parseValues(txt, m)
		}
	}
	s.send("(pop 1)\n")
	return res, m, nil
}

// readSexp reads one balanced s-expression from the solver.
func (s *Solver) readSexp() (string, error) {
	var sb strings.Builder
	depth := 0
	started := false
	inBar := false
	for {
		b, err := s.out.ReadByte()
		if err != nil {
			s.dead = true
			return "", err
		}
		if !started && (b == ' ' || b == '\n' || b == '\r' || b == '\t') {
			continue
		}
		sb.WriteByte(b)
		if b == '|' {
			inBar = !inBar
		}
		if inBar {
			continue
		}
		if b == '(' {
			depth++
			started = true
		} else if b == ')' {
			depth--
			if depth == 0 {
				return sb.String(), nil
			}
		}
	}
}

// parseValues parses "((|a| #x0f) (|b| true) ...)".
func parseValues(txt string, m Model) {
	i := 0
	n := len(txt)
	for i < n {
		// find '(' followed by name
		j := strings.IndexByte(txt[i:], '|')
		if j < 0 {
			return
		}
		i += j + 1
		k := strings.IndexByte(txt[i:], '|')
		if k < 0 {
			return
		}
		name := txt[i : i+k]
		i += k + 1
		// skip spaces
		for i < n && (txt[i] == ' ' || txt[i] == '\n') {
			i++
		}
		// value token up to ')'
		e := i
		depth := 0
		for e < n {
			if txt[e] == '(' {
				depth++
			} else if txt[e] == ')' {
				if depth == 0 {
					break
				}
				depth--
			}
			e++
		}
		tok := strings.TrimSpace(txt[i:e])
		i = e
		var v uint64
		switch {
		case tok == "true":
			v = 1
		case tok == "false":
			v = 0
		case strings.HasPrefix(tok, "#x"):
			v, _ = strconv.ParseUint(tok[2:], 16, 64)
		case strings.HasPrefix(tok, "#b"):
			v, _ = strconv.ParseUint(tok[2:], 2, 64)
		case strings.HasPrefix(tok, "(_ bv"):
			f := strings.Fields(tok[5:])
			v, _ = strconv.ParseUint(f[0], 10, 64)
		}
		m[name] = v
	}
}

// emitFresh prints the definitions of the given terms without touching the
// incremental emission marks.
func emitFresh(sb *strings.Builder, roots []*Term) []string {
	seen := map[int]bool{}
	var visit func(t *Term)
	visit = func(t *Term) {
		if t == nil || t.op == OpConst || seen[t.id] {
			return
		}
		seen[t.id] = true
		visit(t.a)
		visit(t.b)
		visit(t.c)
		if t.op == OpVar {
			fmt.Fprintf(sb, "(declare-const |%s| %s)\n", t.name, sortStr(t.w))
			return
		}
		fmt.Fprintf(sb, "(define-fun t%d () %s ", t.id, sortStr(t.w))
		switch t.op {
		case OpExtract:
			fmt.Fprintf(sb, "((_ extract %d %d) %s)", t.val>>8, t.val&0xff, t.a.ref())
		case OpZExt:
			fmt.Fprintf(sb, "((_ zero_extend %d) %s)", t.w-t.a.w, t.a.ref())
		case OpSExt:
			fmt.Fprintf(sb, "((_ sign_extend %d) %s)", t.w-t.a.w, t.a.ref())
		default:
			sb.WriteString("(" + opNames[t.op])
			for _, k := range []*Term{t.a, t.b, t.c} {
				if k != nil {
					sb.WriteString(" " + k.ref())
				}
			}
			sb.WriteString(")")
		}
		sb.WriteString(")\n")
	}
	refs := make([]string, len(roots))
	for k, r := range roots {
		visit(r)
		refs[k] = r.ref()
	}
	return refs
}

var oneShotSolvers = [][]string{
	{"z3-new", "-smt2", "-in", "-T:120"},
	{"cvc5", "--lang=smt2", "--produce-models", "--solve-bv-as-int=sum", "--tlimit=120000"},
	{"z3", "-smt2", "-in", "-T:120"},
}

// oneShot decides asserted+extra in a fresh solver process (tactic-based
// solving is much stronger than the incremental core on arithmetic queries).
func (s *Solver) oneShot(extra []*Term, wantModel bool) (SatResult, Model) {
	s.OneShots++
	var sb strings.Builder
	roots := append(append([]*Term{}, s.asserted...), extra...)
	refs := emitFresh(&sb, roots)
	for _, r := range refs {
		fmt.Fprintf(&sb, "(assert %s)\n", r)
	}
	sb.WriteString("(check-sat)\n")
	var vars []*Term
	vs := map[string]uint8{}
	seen := map[int]bool{}
	for _, r := range roots {
		r.Vars(vs, seen)
	}
	for _, v := range s.tc.vars {
		if _, ok := vs[v.name]; ok {
			vars = append(vars, v)
		}
	}
	if wantModel && len(vars) > 0 {
		sb.WriteString("(get-value (")
		for _, v := range vars {
			sb.WriteString(v.ref() + " ")
		}
		sb.WriteString("))\n")
	}
	body := sb.String()
	for _, argv := range oneShotSolvers {
		pre := "(set-option :produce-models true)\n"
		if argv[0] == "cvc5" {
			pre = "(set-logic QF_BV)\n"
		}
		cmd := exec.Command(argv[0], argv[1:]...)
		cmd.Stdin = strings.NewReader(pre + body)
		out, _ := cmd.CombinedOutput()
		txt := strings.TrimSpace(string(out))
		if d := os.Getenv("SYMGO_ONESHOT_DUMP"); d != "" {
			os.WriteFile(fmt.Sprintf("%s/oneshot-%d-%s.smt2", d, s.OneShots, argv[0]), []byte(pre+body), 0o644)
			os.WriteFile(fmt.Sprintf("%s/oneshot-%d-%s.out", d, s.OneShots, argv[0]), out, 0o644)
		}
		if strings.Contains(txt, "(error") && !strings.HasPrefix(txt, "unsat") {
			continue
		}
		switch {
		case strings.HasPrefix(txt, "unsat"):
			s.OneShotSolved++
			return Unsat, nil
		case strings.HasPrefix(txt, "sat"):
			s.OneShotSolved++
			m := Model{}
			if k := strings.Index(txt, "("); k >= 0 {
				parseValues(txt[k:], m)
			}
			return Sat, m
		}
	}
	return Unknown, nil
}
