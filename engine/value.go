// Derived from golang.org/x/tools/go/ssa/interp/value.go (BSD-style license).

package main

// Values
//
// All interpreter values are "boxed" in the empty interface, value.
// The range of possible dynamic types within value are:
//
// - bool, numbers (all built-in int/float/complex types are distinguished), string
// - *Term        --- a symbolic integer or boolean (never a constant term)
// - *symStr      --- a string whose bytes may be symbolic (fixed length)
// - *omap        --- maps (insertion ordered)
// - *hchan       --- channels (modelled, see sched.go)
// - []value      --- slices; *opaqueSlice for byte slices of symbolic length
// - iface        --- interfaces.
// - structure    --- structs.
// - array        --- arrays.
// - *value       --- pointers (also unsafe.Pointer).
// - *ssa.Function, *ssa.Builtin, *closure, *nativeClosure, *stubCall --- functions.
// - tuple, iter, **deferred

import (
	"bytes"
	"fmt"
	"go/types"
	"strconv"
	"strings"
	"unicode/utf8"

	"golang.org/x/tools/go/ssa"
)

type value = any

type tuple []value

type array []value

type iface struct {
	t types.Type // never an "untyped" type
	v value
}

type structure []value

type iter interface {
	next() tuple
}

type closure struct {
	Fn  *ssa.Function
	Env []value
}

// symStr is a string of fixed length whose bytes are values (uint8 or *Term).
type symStr struct {
	b []value
}

// opaqueSlice is a []byte of symbolic length whose contents are never read.
type opaqueSlice struct {
	name string
	n    value // int or *Term (width 64)
}

func copyVal(v value) value { return v }

func isSym(v value) bool {
	_, ok := v.(*Term)
	return ok
}

// nil-tolerant variant of types.Identical.
func sameType(x, y types.Type) bool {
	if x == nil {
		return y == nil
	}
	return y != nil && types.Identical(x, y)
}

// load returns the value of type T in *addr.
func load(T types.Type, addr *value) value {
	switch T := T.Underlying().(type) {
	case *types.Struct:
		v := (*addr).(structure)
		a := make(structure, len(v))
		for i := range a {
			a[i] = load(T.Field(i).Type(), &v[i])
		}
		return a
	case *types.Array:
		v := (*addr).(array)
		a := make(array, len(v))
		for i := range a {
			a[i] = load(T.Elem(), &v[i])
		}
		return a
	default:
		return *addr
	}
}

// store stores value v of type T into *addr.
func store(T types.Type, addr *value, v value) {
	switch T := T.Underlying().(type) {
	case *types.Struct:
		lhs := (*addr).(structure)
		rhs := v.(structure)
		for i := range lhs {
			store(T.Field(i).Type(), &lhs[i], rhs[i])
		}
	case *types.Array:
		lhs := (*addr).(array)
		rhs := v.(array)
		for i := range lhs {
			store(T.Elem(), &lhs[i], rhs[i])
		}
	default:
		*addr = v
	}
}

// deepCopy copies aggregate values (structs/arrays) so that the result does
// not alias v's cells.
func deepCopy(v value) value {
	switch v := v.(type) {
	case structure:
		a := make(structure, len(v))
		for i := range v {
			a[i] = deepCopy(v[i])
		}
		return a
	case array:
		a := make(array, len(v))
		for i := range v {
			a[i] = deepCopy(v[i])
		}
		return a
	}
	return v
}

// ---------------------------------------------------------------------
// Ordered maps

type ment struct {
	k, v value
	del  bool
	sym  bool // key contains symbolic parts
}

type omap struct {
	idx  map[string]int
	ents []ment
	live int
	nsym int
}

func newOmap() *omap { return &omap{idx: map[string]int{}} }

func (m *omap) len() int {
	if m == nil {
		return 0
	}
	return m.live
}

// keyString returns a canonical encoding of a concrete key; ok=false if the
// key contains symbolic parts.
func keyString(sb *strings.Builder, v value) bool {
	switch v := v.(type) {
	case bool:
		if v {
			sb.WriteString("T")
		} else {
			sb.WriteString("F")
		}
	case int:
		sb.WriteString("i")
		sb.WriteString(strconv.FormatInt(int64(v), 10))
	case int8:
		sb.WriteString("i")
		sb.WriteString(strconv.FormatInt(int64(v), 10))
	case int16:
		sb.WriteString("i")
		sb.WriteString(strconv.FormatInt(int64(v), 10))
	case int32:
		sb.WriteString("i")
		sb.WriteString(strconv.FormatInt(int64(v), 10))
	case int64:
		sb.WriteString("i")
		sb.WriteString(strconv.FormatInt(v, 10))
	case uint:
		sb.WriteString("u")
		sb.WriteString(strconv.FormatUint(uint64(v), 10))
	case uint8:
		sb.WriteString("u")
		sb.WriteString(strconv.FormatUint(uint64(v), 10))
	case uint16:
		sb.WriteString("u")
		sb.WriteString(strconv.FormatUint(uint64(v), 10))
	case uint32:
		sb.WriteString("u")
		sb.WriteString(strconv.FormatUint(uint64(v), 10))
	case uint64:
		sb.WriteString("u")
		sb.WriteString(strconv.FormatUint(v, 10))
	case uintptr:
		sb.WriteString("u")
		sb.WriteString(strconv.FormatUint(uint64(v), 10))
	case float32:
		sb.WriteString("f")
		sb.WriteString(strconv.FormatFloat(float64(v), 'g', -1, 32))
	case float64:
		sb.WriteString("f")
		sb.WriteString(strconv.FormatFloat(v, 'g', -1, 64))
	case string:
		sb.WriteString("s")
		sb.WriteString(strconv.Itoa(len(v)))
		sb.WriteString(":")
		sb.WriteString(v)
	case *value:
		fmt.Fprintf(sb, "p%p", v)
	case *hchan:
		fmt.Fprintf(sb, "c%p", v)
	case iface:
		if v.t == nil {
			sb.WriteString("I<nil>")
			return true
		}
		sb.WriteString("I(")
		sb.WriteString(v.t.String())
		sb.WriteString(")")
		return keyString(sb, v.v)
	case structure:
		sb.WriteString("{")
		for _, e := range v {
			if !keyString(sb, e) {
				return false
			}
			sb.WriteString(",")
		}
		sb.WriteString("}")
	case array:
		sb.WriteString("[")
		for _, e := range v {
			if !keyString(sb, e) {
				return false
			}
			sb.WriteString(",")
		}
		sb.WriteString("]")
	case *Term, *symStr:
		return false
	case *ssa.Function, *closure:
		panic(targetPanic{v: iface{nil, "runtime error: hash of unhashable type func"}})
	case []value, *omap:
		panic(targetPanic{v: iface{nil, "runtime error: hash of unhashable type"}})
	default:
		panic(engineFault{fmt.Sprintf("keyString: unexpected %T", v)})
	}
	return true
}

type omapIter struct {
	m *omap
	i int
}

func (it *omapIter) next() tuple {
	if it.m != nil {
		for it.i < len(it.m.ents) {
			e := &it.m.ents[it.i]
			it.i++
			if !e.del {
				return tuple{true, e.k, e.v}
			}
		}
	}
	return tuple{false, nil, nil}
}

// ---------------------------------------------------------------------
// Printing

func writeValue(buf *bytes.Buffer, v value) {
	switch v := v.(type) {
	case nil, bool, int, int8, int16, int32, int64, uint, uint8, uint16, uint32, uint64, uintptr, float32, float64, complex64, complex128:
		fmt.Fprintf(buf, "%v", v)
	case string:
		fmt.Fprintf(buf, "%q", v)
	case *Term:
		buf.WriteString("<" + v.String() + ">")
	case *symStr:
		buf.WriteString("symstr[")
		for i, e := range v.b {
			if i > 0 {
				buf.WriteString(" ")
			}
			writeValue(buf, e)
		}
		buf.WriteString("]")
	case *opaqueSlice:
		buf.WriteString("opaque(" + v.name + ")")
	case *omap:
		buf.WriteString("map[")
		if v != nil {
			sep := ""
			for _, e := range v.ents {
				if e.del {
					continue
				}
				buf.WriteString(sep)
				sep = " "
				writeValue(buf, e.k)
				buf.WriteString(":")
				writeValue(buf, e.v)
			}
		}
		buf.WriteString("]")
	case *hchan:
		fmt.Fprintf(buf, "chan(%p)", v)
	case *value:
		if v == nil {
			buf.WriteString("<nil>")
		} else {
			fmt.Fprintf(buf, "%p", v)
		}
	case iface:
		if v.t == nil {
			buf.WriteString("<nil>")
			return
		}
		fmt.Fprintf(buf, "(%s, ", v.t)
		writeValue(buf, v.v)
		buf.WriteString(")")
	case structure:
		buf.WriteString("{")
		for i, e := range v {
			if i > 0 {
				buf.WriteString(" ")
			}
			writeValue(buf, e)
		}
		buf.WriteString("}")
	case array:
		buf.WriteString("[")
		for i, e := range v {
			if i > 0 {
				buf.WriteString(" ")
			}
			writeValue(buf, e)
		}
		buf.WriteString("]")
	case []value:
		buf.WriteString("[")
		for i, e := range v {
			if i > 0 {
				buf.WriteString(" ")
			}
			if i > 40 {
				buf.WriteString("…")
				break
			}
			writeValue(buf, e)
		}
		buf.WriteString("]")
	case *ssa.Function, *ssa.Builtin, *closure:
		fmt.Fprintf(buf, "func(%p)", v)
	case tuple:
		buf.WriteString("(")
		for i, e := range v {
			if i > 0 {
				buf.WriteString(", ")
			}
			writeValue(buf, e)
		}
		buf.WriteString(")")
	default:
		fmt.Fprintf(buf, "<%T>", v)
	}
}

func toString(v value) string {
	var b bytes.Buffer
	writeValue(&b, v)
	return b.String()
}

// ------------------------------------------------------------------------
// Iterators

type stringIter struct {
	s string
	i int
}

func (it *stringIter) next() tuple {
	okv := make(tuple, 3)
	if it.i >= len(it.s) {
		okv[0] = false
		return okv
	}
	ch, n := utf8.DecodeRuneInString(it.s[it.i:])
	okv[0] = true
	okv[1] = it.i
	okv[2] = ch
	it.i += n
	return okv
}
