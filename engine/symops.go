package main

// Operations of the interpreter that are aware of symbolic values.

import (
	"bytes"
	"fmt"
	"go/token"
	"go/types"
	"os"

	"golang.org/x/tools/go/ssa"
)

func basicKind(t types.Type) (types.BasicKind, bool) {
	if b, ok := t.Underlying().(*types.Basic); ok {
		k := b.Kind()
		switch k {
		case types.UntypedBool:
			k = types.Bool
		case types.UntypedInt:
			k = types.Int
		case types.UntypedRune:
			k = types.Int32
		}
		return k, true
	}
	return 0, false
}

func kindWidth(k types.BasicKind) uint8 {
	switch k {
	case types.Bool:
		return 0
	case types.Int8, types.Uint8:
		return 8
	case types.Int16, types.Uint16:
		return 16
	case types.Int32, types.Uint32:
		return 32
	case types.Int, types.Int64, types.Uint, types.Uint64, types.Uintptr:
		return 64
	}
	return 255
}

func kindSigned(k types.BasicKind) bool {
	switch k {
	case types.Int, types.Int8, types.Int16, types.Int32, types.Int64:
		return true
	}
	return false
}

func fromBits(k types.BasicKind, v uint64) value {
	switch k {
	case types.Bool:
		return v != 0
	case types.Int:
		return int(v)
	case types.Int8:
		return int8(v)
	case types.Int16:
		return int16(v)
	case types.Int32:
		return int32(v)
	case types.Int64:
		return int64(v)
	case types.Uint:
		return uint(v)
	case types.Uint8:
		return uint8(v)
	case types.Uint16:
		return uint16(v)
	case types.Uint32:
		return uint32(v)
	case types.Uint64:
		return v
	case types.Uintptr:
		return uintptr(v)
	}
	panic(engineFault{fmt.Sprintf("fromBits: kind %v", k)})
}

// wrap turns a term into a value of static type t: constants become native.
func wrap(t types.Type, tm *Term) value {
	if tm.IsConst() {
		k, ok := basicKind(t)
		if !ok {
			panic(engineFault{fmt.Sprintf("wrap: non-basic type %s", t)})
		}
		return fromBits(k, tm.val)
	}
	return tm
}

func wrapK(k types.BasicKind, tm *Term) value {
	if tm.IsConst() {
		return fromBits(k, tm.val)
	}
	return tm
}

// toTerm converts a scalar value to a term (by its dynamic type).
func (i *interpreter) toTerm(v value) *Term {
	switch v := v.(type) {
	case *Term:
		return v
	case bool:
		return i.tc.Bool(v)
	case int:
		return i.tc.Const(64, uint64(v))
	case int8:
		return i.tc.Const(8, uint64(v))
	case int16:
		return i.tc.Const(16, uint64(v))
	case int32:
		return i.tc.Const(32, uint64(v))
	case int64:
		return i.tc.Const(64, uint64(v))
	case uint:
		return i.tc.Const(64, uint64(v))
	case uint8:
		return i.tc.Const(8, uint64(v))
	case uint16:
		return i.tc.Const(16, uint64(v))
	case uint32:
		return i.tc.Const(32, uint64(v))
	case uint64:
		return i.tc.Const(64, v)
	case uintptr:
		return i.tc.Const(64, uint64(v))
	}
	panic(engineFault{fmt.Sprintf("toTerm: %T", v)})
}

func isScalar(v value) bool {
	switch v.(type) {
	case *Term, bool, int, int8, int16, int32, int64, uint, uint8, uint16, uint32, uint64, uintptr:
		return true
	}
	return false
}

// truth resolves a boolean value, forking on symbolic conditions.
func (i *interpreter) truth(v value) bool {
	switch v := v.(type) {
	case bool:
		return v
	case *Term:
		return i.p.branch(v)
	}
	panic(engineFault{fmt.Sprintf("truth: %T", v)})
}

func (i *interpreter) vNot(v value) value {
	switch v := v.(type) {
	case bool:
		return !v
	case *Term:
		return wrapK(types.Bool, i.tc.BNot(v))
	}
	panic(engineFault{fmt.Sprintf("vNot: %T", v)})
}

func (i *interpreter) vAnd(a, b value) value {
	if x, ok := a.(bool); ok {
		if !x {
			return false
		}
		return b
	}
	if y, ok := b.(bool); ok {
		if !y {
			return false
		}
		return a
	}
	return wrapK(types.Bool, i.tc.BAnd(a.(*Term), b.(*Term)))
}

func (i *interpreter) vOr(a, b value) value {
	if x, ok := a.(bool); ok {
		if x {
			return true
		}
		return b
	}
	if y, ok := b.(bool); ok {
		if y {
			return true
		}
		return a
	}
	return wrapK(types.Bool, i.tc.BOr(a.(*Term), b.(*Term)))
}

// concreteInt returns a concrete value for an integer, forking over the
// feasible values of a symbolic one.
func (i *interpreter) concreteInt(v value, what string) int64 {
	if t, ok := v.(*Term); ok {
		return int64(i.p.concretize(t, what))
	}
	return asInt64(v)
}

// idxTerm widens an index term to 64 bits according to its static type.
func (i *interpreter) idxTerm(t types.Type, tm *Term) *Term {
	if tm.w == 64 {
		return tm
	}
	if k, ok := basicKind(t); ok && kindSigned(k) {
		return i.tc.SExt(tm, 64)
	}
	return i.tc.ZExt(tm, 64)
}

// indexCheck returns the concrete index for idx into a sequence of length n,
// raising the Go run-time panic if it is out of range.
func (i *interpreter) indexCheck(idx value, n int) int {
	if tm, ok := idx.(*Term); ok {
		t64 := tm
		if tm.w != 64 {
			t64 = i.tc.ZExt(tm, 64) // narrower index types in the code base are unsigned
		}
		inb := i.tc.Cmp(OpUlt, t64, i.tc.Const(64, uint64(n)))
		if !i.p.branch(inb) {
			i.rtPanic(fmt.Sprintf("index out of range [symbolic] with length %d", n))
		}
		return int(i.p.concretize(t64, "index"))
	}
	k := asInt64(idx)
	if k < 0 || k >= int64(n) {
		i.rtPanic(fmt.Sprintf("index out of range [%d] with length %d", k, n))
	}
	return int(k)
}

// indexRead returns elems[idx]; a symbolic index into scalars is an ite chain.
func (i *interpreter) indexRead(elems []value, idx value) value {
	tm, ok := idx.(*Term)
	if !ok {
		return elems[i.indexCheck(idx, len(elems))]
	}
	allScalar := len(elems) <= 256 && len(elems) > 0
	var w uint8
	for k, e := range elems {
		if !isScalar(e) {
			allScalar = false
			break
		}
		ew := i.toTerm(e).w
		if k == 0 {
			w = ew
		} else if ew != w {
			allScalar = false
			break
		}
	}
	if !allScalar {
		return elems[i.indexCheck(idx, len(elems))]
	}
	t64 := tm
	if tm.w != 64 {
		t64 = i.tc.ZExt(tm, 64)
	}
	inb := i.tc.Cmp(OpUlt, t64, i.tc.Const(64, uint64(len(elems))))
	if !i.p.branch(inb) {
		i.rtPanic(fmt.Sprintf("index out of range [symbolic] with length %d", len(elems)))
	}
	res := i.toTerm(elems[len(elems)-1])
	for k := len(elems) - 2; k >= 0; k-- {
		res = i.tc.Ite(i.tc.Eq(t64, i.tc.Const(64, uint64(k))), i.toTerm(elems[k]), res)
	}
	if res.IsConst() {
		// restore native type from an element
		return retype(elems[0], res.val)
	}
	return res
}

// retype builds a native value with the dynamic type of like.
func retype(like value, bits uint64) value {
	switch like.(type) {
	case bool:
		return bits != 0
	case int:
		return int(bits)
	case int8:
		return int8(bits)
	case int16:
		return int16(bits)
	case int32:
		return int32(bits)
	case int64:
		return int64(bits)
	case uint:
		return uint(bits)
	case uint8:
		return uint8(bits)
	case uint16:
		return uint16(bits)
	case uint32:
		return uint32(bits)
	case uint64:
		return bits
	case uintptr:
		return uintptr(bits)
	}
	panic(engineFault{fmt.Sprintf("retype: %T", like)})
}

func isIntKind(k types.BasicKind) bool { w := kindWidth(k); return w >= 8 && w <= 64 }

func (i *interpreter) binop(op token.Token, tx, ty, tres types.Type, x, y value) value {
	switch op {
	case token.EQL:
		return i.eqv(tx, x, y)
	case token.NEQ:
		return i.vNot(i.eqv(tx, x, y))
	}
	xs, ys := isSym(x), isSym(y)
	if !xs && !ys {
		if sx, ok := x.(*symStr); ok {
			return i.symStrBinop(op, sx, y)
		}
		if sy, ok := y.(*symStr); ok {
			return i.symStrBinop(op, x, sy)
		}
		switch op {
		case token.QUO, token.REM:
			if k, ok := basicKind(tx); ok && isIntKind(k) && asUint64orInt(y) == 0 {
				i.rtPanic("integer divide by zero")
			}
		case token.SHL, token.SHR:
			if k, ok := basicKind(ty); ok && kindSigned(k) && asInt64(y) < 0 {
				i.rtPanic("negative shift amount")
			}
		}
		return nativeBinop(op, tx, x, y)
	}
	kx, ok := basicKind(tx)
	if !ok {
		panic(engineFault{fmt.Sprintf("binop %s on %s with symbolic operand", op, tx)})
	}
	tc := i.tc
	a, b := i.toTerm(x), i.toTerm(y)
	if kx == types.Bool {
		switch op {
		case token.AND, token.LAND:
			return wrapK(types.Bool, tc.BAnd(a, b))
		case token.OR, token.LOR:
			return wrapK(types.Bool, tc.BOr(a, b))
		}
		panic(engineFault{fmt.Sprintf("bool binop %s", op)})
	}
	if !isIntKind(kx) {
		unsupported("binop %s on %s with symbolic operand", op, tx)
	}
	signed := kindSigned(kx)
	w := kindWidth(kx)
	switch op {
	case token.SHL, token.SHR:
		// bring the shift count to width w; counts >= w saturate
		if b.w > w {
			big := tc.Cmp(OpUle, tc.Const(b.w, uint64(w)), b)
			b = tc.Ite(big, tc.Const(w, uint64(w)), tc.Extract(b, w-1, 0))
		} else if b.w < w {
			b = tc.ZExt(b, w)
		}
		var r *Term
		if op == token.SHL {
			r = tc.Bin(OpShl, a, b)
		} else if signed {
			r = tc.Bin(OpAShr, a, b)
		} else {
			r = tc.Bin(OpLShr, a, b)
		}
		return wrapK(kx, r)
	}
	if a.w != b.w {
		panic(engineFault{fmt.Sprintf("binop %s: widths %d/%d (%s)", op, a.w, b.w, tx)})
	}
	var r *Term
	switch op {
	case token.ADD:
		r = tc.Bin(OpAdd, a, b)
	case token.SUB:
		r = tc.Bin(OpSub, a, b)
	case token.MUL:
		r = tc.Bin(OpMul, a, b)
	case token.QUO, token.REM:
		if !i.p.branch(tc.BNot(tc.Eq(b, tc.Const(w, 0)))) {
			i.rtPanic("integer divide by zero")
		}
		switch {
		case op == token.QUO && signed:
			r = tc.Bin(OpSDiv, a, b)
		case op == token.QUO:
			r = tc.Bin(OpUDiv, a, b)
		case signed:
			r = tc.Bin(OpSRem, a, b)
		default:
			r = tc.Bin(OpURem, a, b)
		}
	case token.AND:
		r = tc.Bin(OpAnd, a, b)
	case token.OR:
		r = tc.Bin(OpOr, a, b)
	case token.XOR:
		r = tc.Bin(OpXor, a, b)
	case token.AND_NOT:
		r = tc.Bin(OpAnd, a, tc.Not(b))
	case token.LSS, token.LEQ, token.GTR, token.GEQ:
		if op == token.GTR || op == token.GEQ {
			a, b = b, a
		}
		strict := op == token.LSS || op == token.GTR
		var cop Op
		switch {
		case signed && strict:
			cop = OpSlt
		case signed:
			cop = OpSle
		case strict:
			cop = OpUlt
		default:
			cop = OpUle
		}
		return wrapK(types.Bool, tc.Cmp(cop, a, b))
	default:
		panic(engineFault{fmt.Sprintf("symbolic binop %s", op)})
	}
	return wrapK(kx, r)
}

func asUint64orInt(v value) uint64 {
	switch v := v.(type) {
	case uint, uint8, uint16, uint32, uint64, uintptr:
		return asUint64(v)
	}
	return uint64(asInt64(v))
}

func (i *interpreter) symStrBinop(op token.Token, x, y value) value {
	bx, by := strBytes(x), strBytes(y)
	switch op {
	case token.ADD:
		out := make([]value, 0, len(bx)+len(by))
		out = append(out, bx...)
		out = append(out, by...)
		return mkStr(out)
	}
	unsupported("string operator %s on symbolic string", op)
	return nil
}

// strBytes returns the bytes of a string or symStr value.
func strBytes(v value) []value {
	switch v := v.(type) {
	case string:
		out := make([]value, len(v))
		for k := 0; k < len(v); k++ {
			out[k] = v[k]
		}
		return out
	case *symStr:
		return v.b
	}
	panic(engineFault{fmt.Sprintf("strBytes: %T", v)})
}

// mkStr builds a string value from bytes: concrete string if possible.
func mkStr(b []value) value {
	buf := make([]byte, len(b))
	for k, e := range b {
		c, ok := e.(uint8)
		if !ok {
			cp := make([]value, len(b))
			copy(cp, b)
			return &symStr{cp}
		}
		buf[k] = c
	}
	return string(buf)
}

// eqv returns x == y for type t as a bool or a boolean term.
func (i *interpreter) eqv(t types.Type, x, y value) value {
	switch ut := t.Underlying().(type) {
	case *types.Basic:
		if isSym(x) || isSym(y) {
			a, b := i.toTerm(x), i.toTerm(y)
			return wrapK(types.Bool, i.tc.Eq(a, b))
		}
		_, sx := x.(*symStr)
		_, sy := y.(*symStr)
		if sx || sy {
			bx, by := strBytes(x), strBytes(y)
			if len(bx) != len(by) {
				return false
			}
			var r value = true
			for k := range bx {
				r = i.vAnd(r, i.eqv(types.Typ[types.Uint8], bx[k], by[k]))
			}
			return r
		}
		if ut.Kind() == types.UnsafePointer {
			return x.(*value) == y.(*value)
		}
		return x == y
	case *types.Pointer:
		return x.(*value) == y.(*value)
	case *types.Chan:
		return x.(*hchan) == y.(*hchan)
	case *types.Struct:
		xs, ys := x.(structure), y.(structure)
		var r value = true
		for k, n := 0, ut.NumFields(); k < n; k++ {
			if f := ut.Field(k); f.Name() != "_" {
				r = i.vAnd(r, i.eqv(f.Type(), xs[k], ys[k]))
				if r == false {
					return false
				}
			}
		}
		return r
	case *types.Array:
		xs, ys := x.(array), y.(array)
		var r value = true
		for k := range xs {
			r = i.vAnd(r, i.eqv(ut.Elem(), xs[k], ys[k]))
			if r == false {
				return false
			}
		}
		return r
	case *types.Interface:
		xi, yi := x.(iface), y.(iface)
		if !sameType(xi.t, yi.t) {
			return false
		}
		if xi.t == nil {
			return true
		}
		switch xi.t.Underlying().(type) {
		case *types.Slice, *types.Map, *types.Signature:
			panic(targetPanic{v: iface{i.runtimeErrorT, "runtime error: comparing uncomparable type " + xi.t.String()}})
		}
		return i.eqv(xi.t, xi.v, yi.v)
	case *types.Map:
		return (x.(*omap) != nil) == (y.(*omap) != nil)
	case *types.Slice:
		return isNilSlice(x) == isNilSlice(y)
	case *types.Signature:
		return isNilFunc(x) == isNilFunc(y)
	}
	panic(engineFault{fmt.Sprintf("eqv: type %s (%T)", t, x)})
}

func isNilSlice(v value) bool {
	switch v := v.(type) {
	case []value:
		return v == nil
	case *opaqueSlice:
		return v == nil
	}
	panic(engineFault{fmt.Sprintf("isNilSlice: %T", v)})
}

func isNilFunc(v value) bool {
	switch v := v.(type) {
	case *ssa.Function:
		return v == nil
	case *closure:
		return v == nil
	case *nativeClosure:
		return v == nil
	case *ssa.Builtin:
		return false
	}
	panic(engineFault{fmt.Sprintf("isNilFunc: %T", v)})
}

func (i *interpreter) unop(fr *frame, instr *ssa.UnOp, x value) value {
	switch instr.Op {
	case token.ARROW: // receive
		v, ok := i.chanRecv(fr, x)
		if !ok {
			v = zero(instr.X.Type().Underlying().(*types.Chan).Elem())
		}
		if instr.CommaOk {
			return tuple{v, ok}
		}
		return v
	case token.MUL:
		return load(mustDeref(instr.X.Type()), fr.ptr(x))
	case token.NOT:
		return i.vNot(x)
	case token.SUB:
		if tm, ok := x.(*Term); ok {
			return i.tc.Neg(tm)
		}
		switch x := x.(type) {
		case int:
			return -x
		case int8:
			return -x
		case int16:
			return -x
		case int32:
			return -x
		case int64:
			return -x
		case uint:
			return -x
		case uint8:
			return -x
		case uint16:
			return -x
		case uint32:
			return -x
		case uint64:
			return -x
		case uintptr:
			return -x
		case float32:
			return -x
		case float64:
			return -x
		case complex64:
			return -x
		case complex128:
			return -x
		}
	case token.XOR:
		if tm, ok := x.(*Term); ok {
			return i.tc.Not(tm)
		}
		switch x := x.(type) {
		case int:
			return ^x
		case int8:
			return ^x
		case int16:
			return ^x
		case int32:
			return ^x
		case int64:
			return ^x
		case uint:
			return ^x
		case uint8:
			return ^x
		case uint16:
			return ^x
		case uint32:
			return ^x
		case uint64:
			return ^x
		case uintptr:
			return ^x
		}
	}
	panic(engineFault{fmt.Sprintf("invalid unary op %s %T", instr.Op, x)})
}

func (i *interpreter) conv(tdst, tsrc types.Type, x value) value {
	switch x := x.(type) {
	case *Term:
		ks, ok1 := basicKind(tsrc)
		kd, ok2 := basicKind(tdst)
		if !ok1 || !ok2 {
			unsupported("conversion %s -> %s of symbolic value", tsrc, tdst)
		}
		if ks == types.Bool && kd == types.Bool {
			return x
		}
		if isIntKind(ks) && kd == types.String {
			// string(rune): ASCII only
			t64 := i.tc.ZExt(x, 64)
			if kindSigned(ks) {
				t64 = i.tc.SExt(x, 64)
			}
			if !i.p.branch(i.tc.Cmp(OpUlt, t64, i.tc.Const(64, 0x80))) {
				unsupported("string(rune) of a symbolic non-ASCII value")
			}
			return &symStr{[]value{wrapK(types.Uint8, i.tc.Extract(t64, 7, 0))}}
		}
		if !isIntKind(ks) || !isIntKind(kd) {
			unsupported("conversion %s -> %s of symbolic value", tsrc, tdst)
		}
		wd := kindWidth(kd)
		if kindSigned(ks) {
			return wrapK(kd, i.tc.SExt(x, wd))
		}
		return wrapK(kd, i.tc.ZExt(x, wd))
	case *symStr:
		switch ud := tdst.Underlying().(type) {
		case *types.Basic:
			if ud.Kind() == types.String {
				return x
			}
		case *types.Slice:
			if k, ok := basicKind(ud.Elem()); ok && k == types.Uint8 {
				out := make([]value, len(x.b))
				copy(out, x.b)
				return out
			}
		}
		unsupported("conversion of symbolic string to %s", tdst)
	case []value:
		if us, ok := tsrc.Underlying().(*types.Slice); ok {
			if ud, ok := tdst.Underlying().(*types.Basic); ok && ud.Kind() == types.String {
				if k, ok := basicKind(us.Elem()); ok && k == types.Uint8 {
					return mkStr(x)
				}
			}
		}
	case *opaqueSlice:
		unsupported("conversion of opaque slice %s", x.name)
	}
	// pointer <-> unsafe.Pointer are identities in this value model
	if _, ok := tsrc.Underlying().(*types.Pointer); ok {
		if b, ok := tdst.Underlying().(*types.Basic); ok && b.Kind() == types.UnsafePointer {
			return x
		}
	}
	if b, ok := tsrc.Underlying().(*types.Basic); ok && b.Kind() == types.UnsafePointer {
		if _, ok := tdst.Underlying().(*types.Pointer); ok {
			return x
		}
		if bd, ok := tdst.Underlying().(*types.Basic); ok && bd.Kind() == types.UnsafePointer {
			return x
		}
		unsupported("conversion unsafe.Pointer -> %s", tdst)
	}
	if b, ok := tdst.Underlying().(*types.Basic); ok && b.Kind() == types.UnsafePointer {
		unsupported("conversion %s -> unsafe.Pointer", tsrc)
	}
	return nativeConv(tdst, tsrc, x)
}

func (i *interpreter) sliceToArrayPointer(tdst, tsrc types.Type, x value) value {
	ptr := tdst.Underlying().(*types.Pointer)
	arr := ptr.Elem().Underlying().(*types.Array)
	xs, ok := x.([]value)
	if !ok {
		unsupported("sliceToArrayPointer on %T", x)
	}
	if arr.Len() > int64(len(xs)) {
		i.rtPanic(fmt.Sprintf("cannot convert slice with length %d to array or pointer to array with length %d", len(xs), arr.Len()))
	}
	if xs == nil {
		return zero(tdst)
	}
	v := value(array(xs[:arr.Len():arr.Len()]))
	return &v
}

// slice returns x[lo:hi:max].  Any of lo, hi and max may be nil.
func (i *interpreter) slice(x, lo, hi, max value) value {
	var Len, Cap int
	switch x := x.(type) {
	case string:
		Len = len(x)
		Cap = Len
	case *symStr:
		Len = len(x.b)
		Cap = Len
	case []value:
		Len = len(x)
		Cap = cap(x)
	case *value: // *array
		if x == nil {
			i.nilDeref()
		}
		a := (*x).(array)
		Len = len(a)
		Cap = cap(a)
	case *opaqueSlice:
		if lo == nil && hi == nil && max == nil {
			return x
		}
		unsupported("slicing opaque slice %s", x.name)
	default:
		panic(engineFault{fmt.Sprintf("slice: unexpected X type: %T", x)})
	}
	// symbolic bounds: first the range check as one branch, then concretise
	symb := isSym(lo) || isSym(hi) || isSym(max)
	if symb {
		tc := i.tc
		l := tc.Const(64, 0)
		if lo != nil {
			l = i.sx64(lo)
		}
		h := tc.Const(64, uint64(Len))
		if hi != nil {
			h = i.sx64(hi)
		}
		m := tc.Const(64, uint64(Cap))
		if max != nil {
			m = i.sx64(max)
		}
		ok := tc.BAnd(tc.Cmp(OpSle, tc.Const(64, 0), l), tc.BAnd(tc.Cmp(OpSle, l, h), tc.BAnd(tc.Cmp(OpSle, h, m), tc.Cmp(OpSle, m, tc.Const(64, uint64(Cap))))))
		if !i.p.branch(ok) {
			i.rtPanic("slice bounds out of range [symbolic]")
		}
	}
	l := int64(0)
	if lo != nil {
		l = i.concreteInt(lo, "slice low")
	}
	h := int64(Len)
	if hi != nil {
		h = i.concreteInt(hi, "slice high")
	}
	m := int64(Cap)
	if max != nil {
		m = i.concreteInt(max, "slice max")
	}
	if l < 0 || l > h || h > m || m > int64(Cap) {
		i.rtPanic(fmt.Sprintf("slice bounds out of range [%d:%d:%d] with capacity %d", l, h, m, Cap))
	}
	switch x := x.(type) {
	case string:
		return x[l:h]
	case *symStr:
		return mkStr(x.b[l:h])
	case []value:
		return x[l:h:m]
	case *value: // *array
		a := (*x).(array)
		return []value(a)[l:h:m]
	}
	panic("unreachable")
}

func (i *interpreter) sx64(v value) *Term {
	t := i.toTerm(v)
	if t.w < 64 {
		switch v.(type) {
		case uint8, uint16, uint32:
			return i.tc.ZExt(t, 64)
		}
		return i.tc.SExt(t, 64)
	}
	return t
}

// ---------------------------------------------------------------------
// maps

// mapFind returns the index of key in m.ents or -1. Symbolic keys (in the map
// or as argument) are resolved by forking on equality.
func (i *interpreter) mapFind(m *omap, kt types.Type, key value) int {
	if m == nil {
		return -1
	}
	var sb stringsBuilder
	if keyString(&sb.Builder, key) {
		if k, ok := m.idx[sb.String()]; ok {
			return k
		}
		if m.nsym == 0 {
			return -1
		}
		for k := range m.ents {
			e := &m.ents[k]
			if e.del || !e.sym {
				continue
			}
			if i.truth(i.eqv(kt, key, e.k)) {
				return k
			}
		}
		return -1
	}
	for k := range m.ents {
		e := &m.ents[k]
		if e.del {
			continue
		}
		if i.truth(i.eqv(kt, key, e.k)) {
			return k
		}
	}
	return -1
}

func (i *interpreter) mapInsert(m *omap, kt types.Type, key, v value) {
	if k := i.mapFind(m, kt, key); k >= 0 {
		m.ents[k].v = v
		return
	}
	var sb stringsBuilder
	if keyString(&sb.Builder, key) {
		m.idx[sb.String()] = len(m.ents)
		m.ents = append(m.ents, ment{k: key, v: v})
	} else {
		m.ents = append(m.ents, ment{k: key, v: v, sym: true})
		m.nsym++
	}
	m.live++
}

func (i *interpreter) mapDelete(m *omap, kt types.Type, key value) {
	k := i.mapFind(m, kt, key)
	if k < 0 {
		return
	}
	e := &m.ents[k]
	e.del = true
	m.live--
	if e.sym {
		m.nsym--
	} else {
		var sb stringsBuilder
		keyString(&sb.Builder, e.k)
		delete(m.idx, sb.String())
	}
	e.k, e.v = nil, nil
}

// lookup returns x[idx] where x is a map or a string.
func (i *interpreter) lookup(instr *ssa.Lookup, x, idx value) value {
	switch x := x.(type) {
	case *omap:
		mt := instr.X.Type().Underlying().(*types.Map)
		var v value
		k := i.mapFind(x, mt.Key(), idx)
		ok := k >= 0
		if ok {
			v = x.ents[k].v
		} else {
			v = zero(mt.Elem())
		}
		if instr.CommaOk {
			return tuple{v, ok}
		}
		return v
	case string:
		if tm, ok := idx.(*Term); ok {
			return i.indexRead(strBytes(x), tm)
		}
		return x[i.indexCheck(idx, len(x))]
	case *symStr:
		return i.indexRead(x.b, idx)
	}
	panic(engineFault{fmt.Sprintf("unexpected x type in Lookup: %T", x)})
}

func (i *interpreter) typeAssert(instr *ssa.TypeAssert, itf iface) value {
	var v value
	err := ""
	if itf.t == nil {
		err = fmt.Sprintf("interface conversion: interface is nil, not %s", instr.AssertedType)
	} else if idst, ok := instr.AssertedType.Underlying().(*types.Interface); ok {
		v = itf
		err = i.W.checkInterface(idst, itf)
	} else if types.Identical(itf.t, instr.AssertedType) {
		v = itf.v // extract value
	} else {
		err = fmt.Sprintf("interface conversion: interface is %s, not %s", itf.t, instr.AssertedType)
	}
	if err != "" {
		if !instr.CommaOk {
			panic(targetPanic{v: iface{i.runtimeErrorT, err}})
		}
		return tuple{zero(instr.AssertedType), false}
	}
	if instr.CommaOk {
		return tuple{v, true}
	}
	return v
}

func (i *interpreter) callBuiltin(caller *frame, callpos token.Pos, fn *ssa.Builtin, args []value) value {
	switch fn.Name() {
	case "append":
		if len(args) == 1 {
			return args[0]
		}
		if s, ok := args[1].(string); ok {
			arg0 := args[0].([]value)
			for k := 0; k < len(s); k++ {
				arg0 = append(arg0, s[k])
			}
			return arg0
		}
		if s, ok := args[1].(*symStr); ok {
			return append(args[0].([]value), s.b...)
		}
		a0, ok0 := args[0].([]value)
		a1, ok1 := args[1].([]value)
		if !ok0 || !ok1 {
			unsupported("append with %T, %T", args[0], args[1])
		}
		if len(a1) == 0 {
			return a0
		}
		return append(a0, a1...)

	case "copy": // copy([]T, []T) int or copy([]byte, string) int
		src := args[1]
		switch s := src.(type) {
		case string:
			src = strBytes(s)
		case *symStr:
			src = s.b
		}
		d, ok0 := args[0].([]value)
		s, ok1 := src.([]value)
		if !ok0 || !ok1 {
			unsupported("copy with %T, %T", args[0], args[1])
		}
		return copy(d, s)

	case "close":
		i.chanClose(caller, args[0])
		return nil

	case "delete":
		m := args[0].(*omap)
		kt := fn.Type().(*types.Signature).Params().At(0).Type().Underlying().(*types.Map).Key()
		i.mapDelete(m, kt, args[1])
		return nil

	case "clear":
		switch x := args[0].(type) {
		case *omap:
			if x != nil {
				x.idx = map[string]int{}
				for k := range x.ents {
					x.ents[k] = ment{del: true}
				}
				x.live, x.nsym = 0, 0
			}
		case []value:
			et := fn.Type().(*types.Signature).Params().At(0).Type().Underlying().(*types.Slice).Elem()
			for k := range x {
				x[k] = zero(et)
			}
		default:
			unsupported("clear(%T)", x)
		}
		return nil

	case "print", "println":
		ln := fn.Name() == "println"
		var buf bytes.Buffer
		for k, arg := range args {
			if k > 0 && ln {
				buf.WriteRune(' ')
			}
			buf.WriteString(toString(arg))
		}
		if ln {
			buf.WriteRune('\n')
		}
		if i.W.verbose {
			os.Stderr.Write(buf.Bytes())
		}
		return nil

	case "len":
		switch x := args[0].(type) {
		case string:
			return len(x)
		case *symStr:
			return len(x.b)
		case array:
			return len(x)
		case *value:
			if x == nil {
				// len of nil *array is the array length (static); recover from type
				pt := fn.Type().(*types.Signature).Params().At(0).Type().Underlying().(*types.Pointer)
				return int(pt.Elem().Underlying().(*types.Array).Len())
			}
			return len((*x).(array))
		case []value:
			return len(x)
		case *opaqueSlice:
			return x.n
		case *omap:
			return x.len()
		case *hchan:
			return x.length()
		default:
			panic(engineFault{fmt.Sprintf("len: illegal operand: %T", x)})
		}

	case "cap":
		switch x := args[0].(type) {
		case array:
			return cap(x)
		case *value:
			return cap((*x).(array))
		case []value:
			return cap(x)
		case *opaqueSlice:
			return x.n
		case *hchan:
			if x == nil {
				return 0
			}
			return x.cap
		default:
			panic(engineFault{fmt.Sprintf("cap: illegal operand: %T", x)})
		}

	case "min", "max":
		isMin := fn.Name() == "min"
		x := args[0]
		pt := fn.Type().(*types.Signature).Params().At(0).Type()
		for _, y := range args[1:] {
			if isSym(x) || isSym(y) {
				var lt value
				if isMin {
					lt = i.binop(token.LSS, pt, pt, types.Typ[types.Bool], x, y)
				} else {
					lt = i.binop(token.GTR, pt, pt, types.Typ[types.Bool], x, y)
				}
				k, _ := basicKind(pt)
				x = wrapK(k, i.tc.Ite(i.toTerm(lt), i.toTerm(x), i.toTerm(y)))
			} else if isMin {
				x = min(x, y)
			} else {
				x = max(x, y)
			}
		}
		return x

	case "real":
		switch c := args[0].(type) {
		case complex64:
			return real(c)
		case complex128:
			return real(c)
		}
	case "imag":
		switch c := args[0].(type) {
		case complex64:
			return imag(c)
		case complex128:
			return imag(c)
		}
	case "complex":
		switch f := args[0].(type) {
		case float32:
			return complex(f, args[1].(float32))
		case float64:
			return complex(f, args[1].(float64))
		}

	case "panic":
		panic(targetPanic{v: args[0]})

	case "recover":
		return doRecover(caller)

	case "ssa:wrapnilchk":
		recv := args[0]
		if recv.(*value) == nil {
			i.rtPanic(fmt.Sprintf("value method %v.%v called using nil pointer", args[1], args[2]))
		}
		return recv

	case "ssa:deferstack":
		return &caller.defers
	}

	panic(engineFault{"unknown built-in: " + fn.Name()})
}

type symStrIter struct {
	i *interpreter
	s *symStr
	k int
}

func (it *symStrIter) next() tuple {
	if it.k >= len(it.s.b) {
		return tuple{false, nil, nil}
	}
	b := it.s.b[it.k]
	var r value
	switch b := b.(type) {
	case uint8:
		if b >= 0x80 {
			unsupported("range over symbolic string with non-ASCII bytes")
		}
		r = int32(b)
	case *Term:
		if !it.i.p.branch(it.i.tc.Cmp(OpUlt, b, it.i.tc.Const(8, 0x80))) {
			unsupported("range over symbolic string with non-ASCII bytes")
		}
		r = wrapK(types.Int32, it.i.tc.ZExt(b, 32))
	}
	it.k++
	return tuple{true, it.k - 1, r}
}

func (i *interpreter) rangeIter(x value) iter {
	switch x := x.(type) {
	case *omap:
		return &omapIter{m: x}
	case string:
		return &stringIter{s: x}
	case *symStr:
		return &symStrIter{i: i, s: x}
	}
	panic(engineFault{fmt.Sprintf("cannot range over %T", x)})
}
