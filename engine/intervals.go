package main

// A tiny sound pre-solver: interval facts about single variables learned from
// the path condition, used to decide branch conditions of the same shape
// without a solver query. Anything it cannot decide goes to the solver.

import "math"

type ival struct {
	slo, shi int64  // signed bounds
	ulo, uhi uint64 // unsigned bounds
}

type ivals map[int]*ival

func (iv ivals) get(v *Term) *ival {
	b := iv[v.id]
	if b == nil {
		w := v.w
		b = &ival{slo: math.MinInt64, shi: math.MaxInt64, ulo: 0, uhi: mask(w)}
		if w < 64 {
			b.slo = -(int64(1) << (w - 1))
			b.shi = int64(1)<<(w-1) - 1
		}
		iv[v.id] = b
	}
	return b
}

// varConst matches (op var const) / (op const var); returns var, const, varOnLeft.
func varConst(t *Term) (*Term, uint64, bool, bool) {
	if t.a == nil || t.b == nil {
		return nil, 0, false, false
	}
	if t.a.op == OpVar && t.b.IsConst() {
		return t.a, t.b.val, true, true
	}
	if t.b.op == OpVar && t.a.IsConst() {
		return t.b, t.a.val, false, true
	}
	return nil, 0, false, false
}

// learn records the fact t (if pos) or its negation.
func (iv ivals) learn(t *Term, pos bool) {
	if t.op == OpBNot {
		iv.learn(t.a, !pos)
		return
	}
	if t.op == OpBAnd && pos {
		iv.learn(t.a, true)
		iv.learn(t.b, true)
		return
	}
	if t.op == OpBOr && !pos {
		iv.learn(t.a, false)
		iv.learn(t.b, false)
		return
	}
	v, c, left, ok := varConst(t)
	if !ok || v.w == 0 {
		return
	}
	b := iv.get(v)
	sc := sext64(c, v.w)
	switch t.op {
	case OpEq:
		if pos {
			if sc > b.slo {
				b.slo = sc
			}
			if sc < b.shi {
				b.shi = sc
			}
			if c > b.ulo {
				b.ulo = c
			}
			if c < b.uhi {
				b.uhi = c
			}
		} else {
			if b.slo == sc && sc < math.MaxInt64 {
				b.slo++
			}
			if b.shi == sc && sc > math.MinInt64 {
				b.shi--
			}
			if b.ulo == c && c < math.MaxUint64 {
				b.ulo++
			}
			if b.uhi == c && c > 0 {
				b.uhi--
			}
		}
	case OpSlt, OpSle:
		// normalise to v REL c
		strict := t.op == OpSlt
		less := left // v < c or v <= c
		if !pos {
			// not (v < c) == v >= c ; not (c < v) == v <= c
			less = !less
			strict = !strict
		}
		if less {
			hi := sc
			if strict {
				if sc == math.MinInt64 {
					return
				}
				hi = sc - 1
			}
			if hi < b.shi {
				b.shi = hi
			}
		} else {
			lo := sc
			if strict {
				if sc == math.MaxInt64 {
					return
				}
				lo = sc + 1
			}
			if lo > b.slo {
				b.slo = lo
			}
		}
	case OpUlt, OpUle:
		strict := t.op == OpUlt
		less := left
		if !pos {
			less = !less
			strict = !strict
		}
		if less {
			hi := c
			if strict {
				if c == 0 {
					return
				}
				hi = c - 1
			}
			if hi < b.uhi {
				b.uhi = hi
			}
		} else {
			lo := c
			if strict {
				if c == math.MaxUint64 {
					return
				}
				lo = c + 1
			}
			if lo > b.ulo {
				b.ulo = lo
			}
		}
	}
	// cross-propagate when the signed range is non-negative
	if b.slo >= 0 {
		if uint64(b.slo) > b.ulo {
			b.ulo = uint64(b.slo)
		}
		if uint64(b.shi) < b.uhi {
			b.uhi = uint64(b.shi)
		}
	}
	if b.uhi <= uint64(maxS(v.w)) {
		if int64(b.ulo) > b.slo {
			b.slo = int64(b.ulo)
		}
		if int64(b.uhi) < b.shi {
			b.shi = int64(b.uhi)
		}
	}
}

func maxS(w uint8) int64 {
	if w >= 64 {
		return math.MaxInt64
	}
	return int64(1)<<(w-1) - 1
}

// decide returns (value, true) if the intervals determine t.
func (iv ivals) decide(t *Term) (bool, bool) {
	if t.op == OpBNot {
		v, ok := iv.decide(t.a)
		return !v, ok
	}
	v, c, left, ok := varConst(t)
	if !ok || v.w == 0 {
		return iv.decideR(t, rngMemo{}, 0)
	}
	b := iv[v.id]
	if b == nil {
		return false, false
	}
	sc := sext64(c, v.w)
	switch t.op {
	case OpEq:
		if sc < b.slo || sc > b.shi || c < b.ulo || c > b.uhi {
			return false, true
		}
		if b.slo == b.shi && b.slo == sc {
			return true, true
		}
		if b.ulo == b.uhi && b.ulo == c {
			return true, true
		}
	case OpSlt, OpSle:
		strict := t.op == OpSlt
		if left { // v < c / v <= c
			if strict {
				if b.shi < sc {
					return true, true
				}
				if b.slo >= sc {
					return false, true
				}
			} else {
				if b.shi <= sc {
					return true, true
				}
				if b.slo > sc {
					return false, true
				}
			}
		} else { // c < v / c <= v
			if strict {
				if sc < b.slo {
					return true, true
				}
				if sc >= b.shi {
					return false, true
				}
			} else {
				if sc <= b.slo {
					return true, true
				}
				if sc > b.shi {
					return false, true
				}
			}
		}
	case OpUlt, OpUle:
		strict := t.op == OpUlt
		if left {
			if strict {
				if b.uhi < c {
					return true, true
				}
				if b.ulo >= c {
					return false, true
				}
			} else {
				if b.uhi <= c {
					return true, true
				}
				if b.ulo > c {
					return false, true
				}
			}
		} else {
			if strict {
				if c < b.ulo {
					return true, true
				}
				if c >= b.uhi {
					return false, true
				}
			} else {
				if c <= b.ulo {
					return true, true
				}
				if c > b.uhi {
					return false, true
				}
			}
		}
	}
	return false, false
}

// ---------------------------------------------------------------------
// exact domains for single-variable constraints

type domains struct {
	small map[int]uint64 // var id -> bitset of allowed values (width <= 6)
	iv    ivals
	tc    *TermCtx
}

func newDomains(tc *TermCtx) *domains {
	return &domains{small: map[int]uint64{}, iv: ivals{}, tc: tc}
}

func (d *domains) allowed(v *Term) uint64 {
	if b, ok := d.small[v.id]; ok {
		return b
	}
	n := uint(1) << v.w1()
	if n >= 64 {
		return ^uint64(0)
	}
	return (uint64(1) << n) - 1
}

func (t *Term) w1() uint {
	if t.w == 0 {
		return 1
	}
	return uint(t.w)
}

func (d *domains) learn(t *Term) {
	if t.op == OpBAnd {
		d.learn(t.a)
		d.learn(t.b)
		return
	}
	d.iv.learn(t, true)
	v := t.oneVar()
	if v == nil || v.w1() > 6 {
		return
	}
	al := d.allowed(v)
	m := Model{}
	n := uint64(1) << v.w1()
	for x := uint64(0); x < n; x++ {
		if al&(1<<x) == 0 {
			continue
		}
		m[v.name] = x
		if d.tc.Eval(t, m) == 0 {
			al &^= 1 << x
		}
	}
	d.small[v.id] = al
}

// decide returns (value, true) when every value the single variable of t may
// still take gives the same truth value.
func (d *domains) decide(t *Term) (bool, bool) {
	if r, ok := d.iv.decide(t); ok {
		return r, true
	}
	v := t.oneVar()
	if v == nil {
		return false, false
	}
	m := Model{}
	sawT, sawF := false, false
	if v.w1() <= 6 {
		al := d.allowed(v)
		n := uint64(1) << v.w1()
		for x := uint64(0); x < n; x++ {
			if al&(1<<x) == 0 {
				continue
			}
			m[v.name] = x
			if d.tc.Eval(t, m) != 0 {
				sawT = true
			} else {
				sawF = true
			}
			if sawT && sawF {
				return false, false
			}
		}
	} else {
		b := d.iv[v.id]
		if b == nil {
			return false, false
		}
		// enumerate a small signed or unsigned interval
		switch {
		case b.shi >= b.slo && uint64(b.shi-b.slo) <= 32:
			for x := b.slo; ; x++ {
				m[v.name] = uint64(x) & mask(v.w)
				if d.tc.Eval(t, m) != 0 {
					sawT = true
				} else {
					sawF = true
				}
				if (sawT && sawF) || x == b.shi {
					break
				}
			}
		case b.uhi >= b.ulo && b.uhi-b.ulo <= 32:
			for x := b.ulo; ; x++ {
				m[v.name] = x
				if d.tc.Eval(t, m) != 0 {
					sawT = true
				} else {
					sawF = true
				}
				if (sawT && sawF) || x == b.uhi {
					break
				}
			}
		default:
			return false, false
		}
		if sawT && sawF {
			return false, false
		}
	}
	if sawT == sawF { // empty domain: path infeasible, let the solver say so
		return false, false
	}
	return sawT, true
}

// ---------------------------------------------------------------------
// range evaluation of compound terms
//
// rng computes bounds lo <= t <= hi that hold for every assignment allowed by
// the learned variable intervals, but only inside the region where machine
// arithmetic coincides with arithmetic on natural numbers: every intermediate
// value is < 2^(w-1), so nothing wraps and the signed and unsigned readings
// agree. Anything that could leave that region makes the evaluation give up
// (the solver decides). This settles the bulk of "running size > limit"
// comparisons in loops over many records without a solver query.

type rngMemo map[*Term]*[3]uint64 // lo, hi, ok(1)/failed(0)

func halfRange(w uint8) uint64 {
	if w == 0 || w > 64 {
		return 0
	}
	return uint64(1) << (w - 1)
}

func (iv ivals) rng(t *Term, memo rngMemo, depth int) (uint64, uint64, bool) {
	if t.w == 0 || depth > 4000 {
		return 0, 0, false
	}
	if r, ok := memo[t]; ok {
		return r[0], r[1], r[2] == 1
	}
	lo, hi, ok := iv.rng1(t, memo, depth)
	if ok && (lo > hi || hi >= halfRange(t.w)) {
		ok = false
	}
	r := &[3]uint64{lo, hi, 0}
	if ok {
		r[2] = 1
	}
	memo[t] = r
	return lo, hi, ok
}

func (iv ivals) rng1(t *Term, memo rngMemo, depth int) (uint64, uint64, bool) {
	half := halfRange(t.w)
	switch t.op {
	case OpConst:
		return t.val, t.val, t.val < half
	case OpVar:
		b := iv[t.id]
		if b == nil {
			return 0, 0, false
		}
		lo, hi := b.ulo, b.uhi
		if b.slo >= 0 {
			if uint64(b.slo) > lo {
				lo = uint64(b.slo)
			}
			if uint64(b.shi) < hi {
				hi = uint64(b.shi)
			}
		}
		return lo, hi, true
	case OpAdd:
		alo, ahi, ok := iv.rng(t.a, memo, depth+1)
		if !ok {
			return 0, 0, false
		}
		if t.b.IsConst() && t.b.val >= half { // x + (-k)
			k := (-t.b.val) & mask(t.w)
			if k <= alo {
				return alo - k, ahi - k, true
			}
			return 0, 0, false
		}
		blo, bhi, ok := iv.rng(t.b, memo, depth+1)
		if !ok || ahi+bhi < ahi {
			return 0, 0, false
		}
		return alo + blo, ahi + bhi, true
	case OpSub:
		alo, ahi, ok := iv.rng(t.a, memo, depth+1)
		if !ok {
			return 0, 0, false
		}
		blo, bhi, ok := iv.rng(t.b, memo, depth+1)
		if !ok || bhi > alo {
			return 0, 0, false
		}
		return alo - bhi, ahi - blo, true
	case OpMul:
		alo, ahi, ok := iv.rng(t.a, memo, depth+1)
		if !ok {
			return 0, 0, false
		}
		blo, bhi, ok := iv.rng(t.b, memo, depth+1)
		if !ok {
			return 0, 0, false
		}
		if ahi != 0 && bhi > (half-1)/ahi {
			return 0, 0, false
		}
		return alo * blo, ahi * bhi, true
	case OpUDiv, OpSDiv:
		if !t.b.IsConst() || t.b.val == 0 || t.b.val >= half {
			return 0, 0, false
		}
		alo, ahi, ok := iv.rng(t.a, memo, depth+1)
		if !ok {
			return 0, 0, false
		}
		return alo / t.b.val, ahi / t.b.val, true
	case OpLShr, OpAShr:
		if !t.b.IsConst() || t.b.val >= uint64(t.w) {
			return 0, 0, false
		}
		alo, ahi, ok := iv.rng(t.a, memo, depth+1)
		if !ok {
			return 0, 0, false
		}
		return alo >> t.b.val, ahi >> t.b.val, true
	case OpZExt, OpSExt:
		// the operand's own range is below half of ITS width, so both
		// extensions keep the value
		return iv.rng(t.a, memo, depth+1)
	case OpExtract:
		hiBit, loBit := t.val>>8, t.val&0xff
		if loBit != 0 || hiBit+1 != uint64(t.w) {
			return 0, 0, false
		}
		alo, ahi, ok := iv.rng(t.a, memo, depth+1)
		if !ok || ahi >= half { // truncation must not cut anything off
			return 0, 0, false
		}
		return alo, ahi, true
	case OpIte:
		if v, ok := iv.decideR(t.a, memo, depth+1); ok {
			if v {
				return iv.rng(t.b, memo, depth+1)
			}
			return iv.rng(t.c, memo, depth+1)
		}
		blo, bhi, ok := iv.rng(t.b, memo, depth+1)
		if !ok {
			return 0, 0, false
		}
		clo, chi, ok := iv.rng(t.c, memo, depth+1)
		if !ok {
			return 0, 0, false
		}
		if clo < blo {
			blo = clo
		}
		if chi > bhi {
			bhi = chi
		}
		return blo, bhi, true
	}
	return 0, 0, false
}

// decideR decides a boolean term from the ranges of its operands.
func (iv ivals) decideR(t *Term, memo rngMemo, depth int) (bool, bool) {
	if depth > 4000 {
		return false, false
	}
	switch t.op {
	case OpConst:
		if t.w == 0 {
			return t.val != 0, true
		}
		return false, false
	case OpBNot:
		v, ok := iv.decideR(t.a, memo, depth+1)
		return !v, ok
	case OpBAnd:
		va, oka := iv.decideR(t.a, memo, depth+1)
		if oka && !va {
			return false, true
		}
		vb, okb := iv.decideR(t.b, memo, depth+1)
		if okb && !vb {
			return false, true
		}
		return true, oka && okb
	case OpBOr:
		va, oka := iv.decideR(t.a, memo, depth+1)
		if oka && va {
			return true, true
		}
		vb, okb := iv.decideR(t.b, memo, depth+1)
		if okb && vb {
			return true, true
		}
		return false, oka && okb
	case OpEq, OpUlt, OpUle, OpSlt, OpSle:
		if t.a == nil || t.b == nil || t.a.w == 0 {
			return false, false
		}
		alo, ahi, ok := iv.rng(t.a, memo, depth+1)
		if !ok {
			return false, false
		}
		blo, bhi, ok := iv.rng(t.b, memo, depth+1)
		if !ok {
			return false, false
		}
		switch t.op {
		case OpEq:
			if ahi < blo || bhi < alo {
				return false, true
			}
			if alo == ahi && blo == bhi && alo == blo {
				return true, true
			}
		case OpUlt, OpSlt:
			if ahi < blo {
				return true, true
			}
			if alo >= bhi {
				return false, true
			}
		case OpUle, OpSle:
			if ahi <= blo {
				return true, true
			}
			if alo > bhi {
				return false, true
			}
		}
	}
	return false, false
}
