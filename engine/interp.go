// Symbolic interpreter for go/ssa, derived from golang.org/x/tools/go/ssa/interp
// (Copyright 2013 The Go Authors, BSD-style license). The value domain is
// extended with SMT terms (*Term) for integers and booleans, goroutines run
// under a cooperative scheduler, maps are insertion ordered, package
// initialisation is lazy, and target run-time panics are raised explicitly.

package main

import (
	"fmt"
	"go/token"
	"go/types"
	"os"
	"slices"
	"strings"

	"golang.org/x/tools/go/ssa"
)

var debugInit = os.Getenv("SYMGO_DEBUG_INIT") != ""

type continuation int

const (
	kNext continuation = iota
	kReturn
	kJump
)

// abortPath unwinds every goroutine of a path without running target defers.
type abortPath struct{}

// engineFault marks a condition the encoder cannot handle (inconclusive).
type engineFault struct{ msg string }

func unsupported(format string, args ...any) {
	panic(engineFault{fmt.Sprintf(format, args...)})
}

// State shared between all interpreted goroutines of one path.
type interpreter struct {
	prog      *ssa.Program
	L         *Loaded
	W         *worker
	globals   map[*ssa.Global]*value
	initDone  map[*ssa.Package]bool
	sizes     types.Sizes
	tc        *TermCtx
	p         *pathCtx
	S         *sched
	steps     int64
	maxSteps  int64
	spinLimit int64       // vfMustFinishWithin: instruction count at which the path is declared non-terminating
	side      map[any]any // side tables for native models keyed by object address
	hashMemo  map[string][]value
	hashIns   []string
	trace     bool
	dead      bool
	curG      *goroutine

	runtimeErrorT types.Type
}

type deferred struct {
	fn    value
	args  []value
	instr *ssa.Defer
	tail  *deferred
}

type frame struct {
	i                *interpreter
	g                *goroutine
	caller           *frame
	fn               *ssa.Function
	block, prevBlock *ssa.BasicBlock
	regs             []value // dynamic values of SSA variables
	info             *fnInfo
	locals           []value
	defers           *deferred
	result           value
	panicking        bool
	panic            any
	phitemps         []value // temporaries for parallel phi assignment
	callpos          token.Pos
	cur              ssa.Instruction
}

func (fr *frame) get(key ssa.Value) value {
	switch key := key.(type) {
	case nil:
		return nil
	case *ssa.Function, *ssa.Builtin:
		return key
	case *ssa.Const:
		return constValue(key)
	case *ssa.Global:
		return fr.i.global(key)
	}
	if k, ok := fr.info.idx[key]; ok {
		return fr.regs[k]
	}
	panic(engineFault{fmt.Sprintf("get: no value for %T: %v in %s", key, key.Name(), fr.fn)})
}

func (fr *frame) set(key ssa.Value, v value) {
	fr.regs[fr.info.idx[key]] = v
}

func (i *interpreter) global(g *ssa.Global) *value {
	if r, ok := i.globals[g]; ok {
		return r
	}
	i.ensureInit(g.Pkg)
	if r, ok := i.globals[g]; ok {
		return r
	}
	cell := zero(mustDeref(g.Type()))
	i.globals[g] = &cell
	return &cell
}

func mustDeref(t types.Type) types.Type {
	if p, ok := t.Underlying().(*types.Pointer); ok {
		return p.Elem()
	}
	panic(fmt.Sprintf("mustDeref: %s", t))
}

func isPkgInit(fn *ssa.Function) bool {
	return fn.Pkg != nil && fn.Name() == "init" && fn.Synthetic == "package initializer"
}

// ensureInit lazily runs the initialiser of pkg (without its imports').
func (i *interpreter) ensureInit(pkg *ssa.Package) {
	if pkg == nil || i.initDone[pkg] {
		return
	}
	i.initDone[pkg] = true
	for _, m := range pkg.Members {
		if g, ok := m.(*ssa.Global); ok {
			if _, ok := i.globals[g]; !ok {
				cell := zero(mustDeref(g.Type()))
				i.globals[g] = &cell
			}
		}
	}
	path := pkg.Pkg.Path()
	if i.L.isStubPkg(path) || i.L.noInit(path) {
		if h := pkgInitHooks[path]; h != nil {
			h(i, pkg)
		}
		return
	}
	if init := pkg.Func("init"); init != nil && init.Blocks != nil {
		s0 := i.steps
		callSSA(i, nil, token.NoPos, init, nil, nil)
		if debugInit {
			fmt.Fprintf(os.Stderr, "INIT %s steps=%d\n", path, i.steps-s0)
		}
	}
	if h := pkgInitHooks[path]; h != nil {
		h(i, pkg)
	}
}

// runDefer runs a deferred call d.
// It always returns normally, but may set or clear fr.panic.
func (fr *frame) runDefer(d *deferred) {
	var ok bool
	defer func() {
		if !ok {
			r := recover()
			switch r.(type) {
			case abortPath, engineFault:
				panic(r)
			}
			// Deferred call created a new state of panic.
			fr.panicking = true
			fr.panic = r
		}
	}()
	call(fr.i, fr, d.instr.Pos(), d.fn, d.args)
	ok = true
}

func (fr *frame) runDefers() {
	for d := fr.defers; d != nil; d = d.tail {
		fr.runDefer(d)
	}
	fr.defers = nil
	if fr.panicking {
		panic(fr.panic) // new panic, or still panicking
	}
}

func lookupMethod(i *interpreter, typ types.Type, meth *types.Func) *ssa.Function {
	return i.prog.LookupMethod(typ, meth.Pkg(), meth.Name())
}

func (i *interpreter) rtPanic(msg string) {
	panic(targetPanic{v: iface{i.runtimeErrorT, "runtime error: " + msg}})
}

func (i *interpreter) nilDeref() {
	i.rtPanic("invalid memory address or nil pointer dereference")
}

func (fr *frame) ptr(v value) *value {
	p, ok := v.(*value)
	if !ok {
		unsupported("pointer operand is %T in %s", v, fr.fn)
	}
	if p == nil {
		fr.i.nilDeref()
	}
	return p
}

// visitInstr interprets a single ssa.Instruction within the activation
// record frame.
func visitInstr(fr *frame, instr ssa.Instruction) continuation {
	i := fr.i
	switch instr := instr.(type) {
	case *ssa.DebugRef:
		// no-op

	case *ssa.UnOp:
		fr.set(instr, i.unop(fr, instr, fr.get(instr.X)))

	case *ssa.BinOp:
		fr.set(instr, i.binop(instr.Op, instr.X.Type(), instr.Y.Type(), instr.Type(), fr.get(instr.X), fr.get(instr.Y)))

	case *ssa.Call:
		fn, args := prepareCall(fr, &instr.Call)
		fr.set(instr, call(fr.i, fr, instr.Pos(), fn, args))

	case *ssa.ChangeInterface:
		fr.set(instr, fr.get(instr.X))

	case *ssa.ChangeType:
		fr.set(instr, fr.get(instr.X)) // (can not fail)

	case *ssa.Convert:
		fr.set(instr, i.conv(instr.Type(), instr.X.Type(), fr.get(instr.X)))

	case *ssa.MultiConvert:
		fr.set(instr, i.conv(instr.Type(), instr.X.Type(), fr.get(instr.X)))

	case *ssa.SliceToArrayPointer:
		fr.set(instr, i.sliceToArrayPointer(instr.Type(), instr.X.Type(), fr.get(instr.X)))

	case *ssa.MakeInterface:
		fr.set(instr, iface{t: instr.X.Type(), v: fr.get(instr.X)})

	case *ssa.Extract:
		fr.set(instr, fr.get(instr.Tuple).(tuple)[instr.Index])

	case *ssa.Slice:
		fr.set(instr, i.slice(fr.get(instr.X), fr.get(instr.Low), fr.get(instr.High), fr.get(instr.Max)))

	case *ssa.Return:
		switch len(instr.Results) {
		case 0:
		case 1:
			fr.result = fr.get(instr.Results[0])
		default:
			var res []value
			for _, r := range instr.Results {
				res = append(res, fr.get(r))
			}
			fr.result = tuple(res)
		}
		fr.block = nil
		return kReturn

	case *ssa.RunDefers:
		fr.runDefers()

	case *ssa.Panic:
		panic(targetPanic{v: fr.get(instr.X)})

	case *ssa.Send:
		i.chanSend(fr, fr.get(instr.Chan), copyVal(fr.get(instr.X)))

	case *ssa.Store:
		store(mustDeref(instr.Addr.Type()), fr.ptr(fr.get(instr.Addr)), fr.get(instr.Val))

	case *ssa.If:
		succ := 1
		if i.truth(fr.get(instr.Cond)) {
			succ = 0
		}
		fr.prevBlock, fr.block = fr.block, fr.block.Succs[succ]
		return kJump

	case *ssa.Jump:
		fr.prevBlock, fr.block = fr.block, fr.block.Succs[0]
		return kJump

	case *ssa.Defer:
		fn, args := prepareCall(fr, &instr.Call)
		defers := &fr.defers
		if into := fr.get(instr.DeferStack); into != nil {
			defers = into.(**deferred)
		}
		*defers = &deferred{
			fn:    fn,
			args:  args,
			instr: instr,
			tail:  *defers,
		}

	case *ssa.Go:
		fn, args := prepareCall(fr, &instr.Call)
		i.S.spawn(i, fn, args, instr.Pos())

	case *ssa.MakeChan:
		fr.set(instr, i.makeChan(instr.Type(), int(i.concreteInt(fr.get(instr.Size), "make(chan) size"))))

	case *ssa.Alloc:
		var addr *value
		if instr.Heap {
			// new
			addr = new(value)
			fr.set(instr, addr)
		} else {
			// local
			addr = fr.get(instr).(*value)
		}
		*addr = zero(mustDeref(instr.Type()))

	case *ssa.MakeSlice:
		n := i.concreteInt(fr.get(instr.Len), "make([]T) len")
		c := i.concreteInt(fr.get(instr.Cap), "make([]T) cap")
		if n < 0 || c < n || c > 1<<24 {
			if c > 1<<24 && n >= 0 && c >= n {
				unsupported("make([]T, %d, %d): too large to materialise", n, c)
			}
			i.rtPanic("makeslice: len out of range")
		}
		sl := make([]value, c)
		tElt := instr.Type().Underlying().(*types.Slice).Elem()
		for k := range sl {
			sl[k] = zero(tElt)
		}
		fr.set(instr, sl[:n])

	case *ssa.MakeMap:
		fr.set(instr, newOmap())

	case *ssa.Range:
		fr.set(instr, i.rangeIter(fr.get(instr.X)))

	case *ssa.Next:
		fr.set(instr, fr.get(instr.Iter).(iter).next())

	case *ssa.FieldAddr:
		p := fr.ptr(fr.get(instr.X))
		fr.set(instr, &(*p).(structure)[instr.Field])

	case *ssa.Field:
		fr.set(instr, fr.get(instr.X).(structure)[instr.Field])

	case *ssa.IndexAddr:
		x := fr.get(instr.X)
		idx := fr.get(instr.Index)
		switch x := x.(type) {
		case []value:
			k := i.indexCheck(idx, len(x))
			fr.set(instr, &x[k])
		case *value: // *array
			if x == nil {
				i.nilDeref()
			}
			a := (*x).(array)
			k := i.indexCheck(idx, len(a))
			fr.set(instr, &a[k])
		case *opaqueSlice:
			unsupported("IndexAddr on opaque slice %s", x.name)
		default:
			panic(engineFault{fmt.Sprintf("unexpected x type in IndexAddr: %T", x)})
		}

	case *ssa.Index:
		x := fr.get(instr.X)
		idx := fr.get(instr.Index)
		switch x := x.(type) {
		case array:
			fr.set(instr, i.indexRead([]value(x), idx))
		case string:
			k := i.indexCheck(idx, len(x))
			fr.set(instr, x[k])
		case *symStr:
			fr.set(instr, i.indexRead(x.b, idx))
		default:
			panic(engineFault{fmt.Sprintf("unexpected x type in Index: %T", x)})
		}

	case *ssa.Lookup:
		fr.set(instr, i.lookup(instr, fr.get(instr.X), fr.get(instr.Index)))

	case *ssa.MapUpdate:
		m := fr.get(instr.Map).(*omap)
		if m == nil {
			panic(targetPanic{v: iface{i.runtimeErrorT, "assignment to entry in nil map"}})
		}
		i.mapInsert(m, instr.Map.Type().Underlying().(*types.Map).Key(), fr.get(instr.Key), copyVal(fr.get(instr.Value)))

	case *ssa.TypeAssert:
		fr.set(instr, i.typeAssert(instr, fr.get(instr.X).(iface)))

	case *ssa.MakeClosure:
		var bindings []value
		for _, binding := range instr.Bindings {
			bindings = append(bindings, fr.get(binding))
		}
		fr.set(instr, &closure{instr.Fn.(*ssa.Function), bindings})

	case *ssa.Phi:
		panic("unreachable") // phis are processed at block entry

	case *ssa.Select:
		fr.set(instr, i.selectStmt(fr, instr))

	default:
		panic(engineFault{fmt.Sprintf("unexpected instruction: %T", instr)})
	}
	return kNext
}

// prepareCall determines the function value and argument values for a
// function call in a Call, Go or Defer instruction, performing
// interface method lookup if needed.
func prepareCall(fr *frame, call *ssa.CallCommon) (fn value, args []value) {
	v := fr.get(call.Value)
	if call.Method == nil {
		// Function call.
		fn = v
	} else {
		// Interface method invocation.
		recv := v.(iface)
		if recv.t == nil {
			if pk := call.Method.Pkg(); pk != nil && fr.i.L.isStubPkg(pk.Path()) {
				// method of an observability interface on a nil value: no-op
				return &stubCall{sig: call.Method.Type().(*types.Signature)}, nil
			}
			fr.i.nilDeref()
		}
		if f := lookupMethod(fr.i, recv.t, call.Method); f == nil {
			panic(engineFault{fmt.Sprintf("method set for dynamic type %v does not contain %s", recv.t, call.Method)})
		} else {
			fn = f
		}
		args = append(args, recv.v)
	}
	for _, arg := range call.Args {
		args = append(args, copyVal(fr.get(arg)))
	}
	return
}

// stubCall is a callable that returns the zero value of its results.
type stubCall struct{ sig *types.Signature }

func zeroResults(sig *types.Signature) value {
	switch sig.Results().Len() {
	case 0:
		return nil
	case 1:
		return zero(sig.Results().At(0).Type())
	}
	return zero(sig.Results())
}

// stubResults is zeroResults, except that pointers to structs declared in a
// stubbed (observability) package are non-nil pointers to a zero struct, so
// that field selections through them do not fault.
func (i *interpreter) stubResults(sig *types.Signature) value {
	mk := func(t types.Type) value {
		if pt, ok := t.Underlying().(*types.Pointer); ok {
			if nt, ok := pt.Elem().(*types.Named); ok && nt.Obj().Pkg() != nil && i.L.isStubPkg(nt.Obj().Pkg().Path()) {
				if _, ok := nt.Underlying().(*types.Struct); ok {
					v := zero(nt)
					return &v
				}
			}
		}
		return zero(t)
	}
	switch sig.Results().Len() {
	case 0:
		return nil
	case 1:
		return mk(sig.Results().At(0).Type())
	}
	out := make(tuple, sig.Results().Len())
	for k := range out {
		out[k] = mk(sig.Results().At(k).Type())
	}
	return out
}

// call interprets a call to a function (function, builtin or closure)
// fn with arguments args, returning its result.
func call(i *interpreter, caller *frame, callpos token.Pos, fn value, args []value) value {
	switch fn := fn.(type) {
	case *ssa.Function:
		if fn == nil {
			i.nilDeref()
		}
		return callSSA(i, caller, callpos, fn, args, nil)
	case *closure:
		return callSSA(i, caller, callpos, fn.Fn, args, fn.Env)
	case *ssa.Builtin:
		return i.callBuiltin(caller, callpos, fn, args)
	case *stubCall:
		return i.stubResults(fn.sig)
	case *nativeClosure:
		return fn.f(caller, args)
	}
	panic(engineFault{fmt.Sprintf("cannot call %T", fn)})
}

// nativeClosure is a func value implemented by the engine.
type nativeClosure struct {
	f    func(fr *frame, args []value) value
	name string
}

func funcName(fn value) string {
	switch f := fn.(type) {
	case *ssa.Function:
		if f != nil {
			return f.String()
		}
	case *closure:
		return f.Fn.String()
	case *nativeClosure:
		return f.name
	}
	return "?"
}

func fnPkg(fn *ssa.Function) *ssa.Package {
	for f := fn; f != nil; f = f.Parent() {
		if f.Pkg != nil {
			return f.Pkg
		}
		if o := f.Origin(); o != nil && o.Pkg != nil {
			return o.Pkg
		}
	}
	// wrappers / bound methods / thunks: use the object's package
	if obj := fn.Object(); obj != nil && obj.Pkg() != nil {
		return fn.Prog.Package(obj.Pkg())
	}
	return nil
}

func callSSA(i *interpreter, caller *frame, callpos token.Pos, fn *ssa.Function, args []value, env []value) value {
	if i.dead {
		panic(abortPath{})
	}
	fr := &frame{
		i:       i,
		caller:  caller,
		fn:      fn,
		callpos: callpos,
	}
	if caller != nil {
		fr.g = caller.g
	} else {
		fr.g = i.curG
	}
	info := i.W.fnInfo(fn)
	if info.native != nil {
		return info.native(fr, args)
	}
	return runSSA(i, fr, info, fn, args, env)
}

// callSSABody interprets fn's SSA body even if a native is registered for it.
func callSSABody(i *interpreter, caller *frame, callpos token.Pos, fn *ssa.Function, args []value, env []value) value {
	fr := &frame{i: i, caller: caller, fn: fn, callpos: callpos}
	if caller != nil {
		fr.g = caller.g
	} else {
		fr.g = i.curG
	}
	return runSSA(i, fr, i.W.fnInfo(fn), fn, args, env)
}

func runSSA(i *interpreter, fr *frame, info *fnInfo, fn *ssa.Function, args []value, env []value) value {
	caller, callpos := fr.caller, fr.callpos
	if info.intercept != nil {
		return callSSA(i, caller, callpos, info.intercept, args, nil)
	}
	if info.stub {
		return i.stubResults(fn.Signature)
	}
	if info.lazyInit && caller != nil && isPkgInit(caller.fn) {
		return nil // imported package initialisers run on first touch
	}
	if fn.Blocks == nil {
		unsupported("no code for function: %s", fn)
	}
	if info.pkg != nil && !i.initDone[info.pkg] {
		i.ensureInit(info.pkg)
	}
	if fn.TypeParams().Len() > 0 && len(fn.TypeArgs()) == 0 {
		unsupported("uninstantiated generic %s", fn)
	}
	info.calls++

	if i.trace {
		fmt.Fprintf(os.Stderr, "%*sEntering %s\n", depth(fr), "", fn)
	}

	if info.idx == nil {
		info.buildIndex(fn)
		if isPkgInit(fn) {
			if bi := i.L.bigInit(fn.Pkg); bi != nil {
				info.skip = bi.skip
			}
		}
	}
	fr.info = info
	fr.regs = make([]value, len(info.idx))
	fr.block = fn.Blocks[0]
	fr.locals = make([]value, len(fn.Locals))
	for k, l := range fn.Locals {
		fr.locals[k] = zero(mustDeref(l.Type()))
		fr.set(l, &fr.locals[k])
	}
	for k, p := range fn.Params {
		fr.set(p, args[k])
	}
	for k, fv := range fn.FreeVars {
		fr.set(fv, env[k])
	}
	if fr.g != nil {
		saved := fr.g.top
		fr.g.top = fr
		defer func() { fr.g.top = saved }()
	}
	for fr.block != nil {
		runFrame(fr)
	}
	return fr.result
}

func depth(fr *frame) int {
	n := 0
	for f := fr; f != nil; f = f.caller {
		n++
	}
	return n
}

func runFrame(fr *frame) {
	defer func() {
		if fr.block == nil {
			return // normal return
		}
		r := recover()
		switch r := r.(type) {
		case abortPath:
			panic(r)
		case engineFault:
			if !strings.Contains(r.msg, "target stack") {
				r.msg += "\n  target stack: " + strings.Join(fr.stack(), " <- ")
			}
			panic(r)
		case targetPanic:
			if r.info == nil {
				pos := ""
				if fr.cur != nil && fr.cur.Pos().IsValid() {
					pos = shortPos(fr.i.prog.Fset.Position(fr.cur.Pos()))
				}
				r.info = &panicInfo{stack: fr.stack(), pos: pos, fn: fr.fn.String()}
				fr.panicking = true
				fr.panic = r
				fr.runDefers()
				fr.block = fr.fn.Recover
				if fr.block == nil {
					fr.result = zeroResults(fr.fn.Signature)
				}
				return
			}
		case goexitPanic:
		default:
			// host run-time error inside the engine: not a target panic
			panic(engineFault{fmt.Sprintf("engine fault in %s: %v\ntarget stack: %s\n%s", fr.fn, r, strings.Join(fr.stack(), " <- "), hostStack())})
		}
		fr.panicking = true
		fr.panic = r
		fr.runDefers()
		fr.block = fr.fn.Recover
		if fr.block == nil {
			// recovered in a function without named results: zero result
			fr.result = zeroResults(fr.fn.Signature)
		}
	}()

	i := fr.i
	for {
		nonPhis := executePhis(fr)
		for _, instr := range nonPhis {
			if fr.info.skip != nil {
				if fi, ok := fr.info.skip[instr]; ok {
					if fi != nil {
						copy((*fr.get(fi.alloc).(*value)).(array), fi.tmpl)
					}
					continue
				}
			}
			i.steps++
			fr.cur = instr
			if i.spinLimit > 0 && i.steps > i.spinLimit {
				i.spinLimit = 0
				i.p.spin(fr)
				panic(abortPath{})
			}
			if i.steps > i.maxSteps {
				i.p.inconclusive("step bound %d exceeded in %s", i.maxSteps, fr.fn)
				panic(abortPath{})
			}
			if i.trace {
				if v, ok := instr.(ssa.Value); ok {
					fmt.Fprintln(os.Stderr, strings.Repeat(" ", depth(fr)), v.Name(), "=", instr)
				} else {
					fmt.Fprintln(os.Stderr, strings.Repeat(" ", depth(fr)), instr)
				}
			}
			if visitInstr(fr, instr) == kReturn {
				return
			}
		}
	}
}

func executePhis(fr *frame) []ssa.Instruction {
	firstNonPhi := -1
	for i, instr := range fr.block.Instrs {
		if _, ok := instr.(*ssa.Phi); !ok {
			firstNonPhi = i
			break
		}
	}
	nonPhis := fr.block.Instrs[firstNonPhi:]
	if firstNonPhi > 0 {
		phis := fr.block.Instrs[:firstNonPhi]
		predIndex := slices.Index(fr.block.Preds, fr.prevBlock)
		fr.phitemps = fr.phitemps[:0]
		for _, phi := range phis {
			phi := phi.(*ssa.Phi)
			fr.phitemps = append(fr.phitemps, fr.get(phi.Edges[predIndex]))
		}
		for i, phi := range phis {
			fr.set(phi.(*ssa.Phi), fr.phitemps[i])
		}
	}
	return nonPhis
}

type goexitPanic struct{}

// doRecover implements the recover() built-in.
func doRecover(caller *frame) value {
	if caller != nil && !caller.panicking &&
		caller.caller != nil && caller.caller.panicking {
		p := caller.caller.panic
		switch p := p.(type) {
		case targetPanic:
			caller.caller.panicking = false
			caller.caller.panic = nil
			return p.v
		case goexitPanic:
			return iface{}
		default:
			panic(engineFault{fmt.Sprintf("unexpected panic type %T in target call to recover()", p)})
		}
	}
	return iface{}
}

// describePanic renders a target panic value.
func describePanic(p any) string {
	switch p := p.(type) {
	case targetPanic:
		if it, ok := p.v.(iface); ok {
			if s, ok := it.v.(string); ok {
				return s
			}
			if it.t != nil {
				return fmt.Sprintf("(%s) %s", it.t, toString(it.v))
			}
		}
		return toString(p.v)
	}
	return fmt.Sprint(p)
}

// where returns "file:line func" of the innermost repo frame.
func (fr *frame) where() string {
	for f := fr; f != nil; f = f.caller {
		if f.fn != nil {
			return f.fn.String()
		}
	}
	return "?"
}

func (fr *frame) stack() []string {
	var out []string
	for f := fr; f != nil; f = f.caller {
		s := f.fn.String()
		if f.caller != nil && f.callpos.IsValid() {
			s += " (called at " + shortPos(fr.i.prog.Fset.Position(f.callpos)) + ")"
		}
		out = append(out, s)
		if len(out) > 12 {
			break
		}
	}
	return out
}

func shortPos(p token.Position) string {
	f := p.Filename
	if k := strings.LastIndex(f, "/"); k >= 0 {
		if j := strings.LastIndex(f[:k], "/"); j >= 0 {
			f = f[j+1:]
		}
	}
	return fmt.Sprintf("%s:%d", f, p.Line)
}

// ---------------------------------------------------------------------
// Large constant array literals in package initialisers (e.g. kbucket's
// 65536-entry keyPrefixMap) are built once and copied per path instead of
// being stored element by element on every path.

type fillInfo struct {
	alloc *ssa.Alloc
	tmpl  []value
}

type bigInitInfo struct {
	skip map[ssa.Instruction]*fillInfo
}

func (L *Loaded) bigInit(pkg *ssa.Package) *bigInitInfo {
	L.bigMu.Lock()
	defer L.bigMu.Unlock()
	if bi, ok := L.bigInits[pkg]; ok {
		return bi
	}
	var bi *bigInitInfo
	if init := pkg.Func("init"); init != nil {
		for _, b := range init.Blocks {
			for _, in := range b.Instrs {
				al, ok := in.(*ssa.Alloc)
				if !ok {
					continue
				}
				at, ok := mustDeref(al.Type()).Underlying().(*types.Array)
				if !ok || at.Len() < 512 {
					continue
				}
				if _, isBasic := at.Elem().Underlying().(*types.Basic); !isBasic {
					continue
				}
				tmpl := make([]value, at.Len())
				z := zero(at.Elem())
				for k := range tmpl {
					tmpl[k] = z
				}
				var skipped []ssa.Instruction
				for _, ref := range *al.Referrers() {
					ia, ok := ref.(*ssa.IndexAddr)
					if !ok {
						continue
					}
					ci, ok := ia.Index.(*ssa.Const)
					if !ok || len(*ia.Referrers()) != 1 {
						continue
					}
					st, ok := (*ia.Referrers())[0].(*ssa.Store)
					if !ok || st.Addr != ia {
						continue
					}
					cv, ok := st.Val.(*ssa.Const)
					if !ok {
						continue
					}
					tmpl[ci.Int64()] = constValue(cv)
					skipped = append(skipped, ia, st)
				}
				if len(skipped) < 1024 {
					continue
				}
				if bi == nil {
					bi = &bigInitInfo{skip: map[ssa.Instruction]*fillInfo{}}
				}
				for _, sk := range skipped {
					bi.skip[sk] = nil
				}
				bi.skip[skipped[0]] = &fillInfo{alloc: al, tmpl: tmpl}
			}
		}
	}
	L.bigInits[pkg] = bi
	return bi
}
