package main

// Cooperative scheduler for interpreted goroutines, modelled channels,
// select, virtual timers and the sync primitives.

import (
	"fmt"
	"go/token"
	"go/types"
	"sort"
	"strings"
	"sync"

	"golang.org/x/tools/go/ssa"
)

type gstate int

const (
	gRunnable gstate = iota
	gRunning
	gBlocked
	gDone
)

type goroutine struct {
	id        int
	wake      chan struct{}
	state     gstate
	blockedOn string
	idleWait  bool // parked in vfWaitIdle: runnable only when nobody else is
	entry     string
	timerOnly bool // blocked only on a virtual timer (sleep)
	top       *frame // innermost interpreted frame (diagnostics)
}

type vtimer struct {
	due     int64
	seq     int
	ch      *hchan
	fn      value // AfterFunc callback
	g       *goroutine
	period  int64
	active  bool
	firings int
	obj     *value // the *time.Timer / *time.Ticker struct
}

type sched struct {
	i            *interpreter
	gs           []*goroutine
	runq         []*goroutine
	now          int64 // virtual nanoseconds since the Unix epoch
	timers       []*vtimer
	tseq         int
	switchBudget int
	lifo         bool
	maxTicks     int
	hostWG       sync.WaitGroup
	done         chan struct{} // closed when the path has ended
	doneOnce     sync.Once
	nextID       int
}

// virtual epoch: 2000-01-01T00:00:00Z, as testing/synctest
const virtualEpochNs = 946684800 * 1_000_000_000

func newSched(i *interpreter) *sched {
	return &sched{i: i, now: virtualEpochNs, done: make(chan struct{}), maxTicks: 3}
}

func (s *sched) finish() {
	s.doneOnce.Do(func() { close(s.done) })
}

func (s *sched) newG(entry string) *goroutine {
	g := &goroutine{id: s.nextID, wake: make(chan struct{}, 1), entry: entry}
	s.nextID++
	s.gs = append(s.gs, g)
	return g
}

// spawn starts an interpreted goroutine running fn(args).
func (s *sched) spawn(i *interpreter, fn value, args []value, pos token.Pos) *goroutine {
	name := funcName(fn)
	g := s.newG(name)
	g.state = gRunnable
	s.runq = append(s.runq, g)
	s.hostWG.Add(1)
	go func() {
		defer s.hostWG.Done()
		select {
		case <-g.wake:
		case <-s.done:
			return
		}
		if i.dead {
			return
		}
		s.runG(g, func() { call(i, nil, pos, fn, args) })
	}()
	return g
}

// runG runs body as goroutine g (which holds the baton) and handles its end.
func (s *sched) runG(g *goroutine, body func()) {
	i := s.i
	defer func() {
		r := recover()
		switch r := r.(type) {
		case nil:
		case abortPath:
			return
		case goexitPanic:
		case engineFault:
			st := ""
			if g.top != nil && !strings.Contains(r.msg, "target stack") {
				st = "\n  target stack: " + strings.Join(g.top.stack(), " <- ")
			}
			i.p.inconclusive("%s%s", r.msg, st)
			i.p.end(outAbort)
			return
		case targetPanic:
			i.p.panicOutcome(r, g)
			return
		default:
			i.p.inconclusive("engine fault: %v\n%s", r, hostStack())
			i.p.end(outAbort)
			return
		}
		if i.dead {
			return
		}
		g.state = gDone
		if g.id == 0 {
			i.p.end(outReturn)
			return
		}
		func() {
			defer func() {
				if r := recover(); r != nil {
					if _, ok := r.(abortPath); !ok {
						i.p.inconclusive("engine fault at goroutine exit: %v", r)
						i.p.end(outAbort)
					}
				}
			}()
			s.dispatch(g)
		}()
	}()
	i.curG = g
	g.state = gRunning
	body()
}

// pickNext removes and returns the next runnable goroutine.
func (s *sched) pickNext() *goroutine {
	// with budget left, which runnable goroutine runs next is explored too
	if s.switchBudget > 0 {
		n := 0
		for _, g := range s.runq {
			if !g.idleWait {
				n++
			}
		}
		if n > 1 {
			k := s.i.p.choose(n, "sched@next")
			if k > 0 {
				s.switchBudget--
				c := 0
				for j, g := range s.runq {
					if g.idleWait {
						continue
					}
					if c == k {
						s.runq = append(s.runq[:j:j], s.runq[j+1:]...)
						return g
					}
					c++
				}
			}
		}
	}
	if s.lifo {
		// adversarial deterministic policy: the most recently woken goroutine first
		for k := len(s.runq) - 1; k >= 0; k-- {
			g := s.runq[k]
			if g.idleWait {
				continue
			}
			s.runq = append(s.runq[:k:k], s.runq[k+1:]...)
			return g
		}
	}
	for k, g := range s.runq {
		if g.idleWait {
			continue
		}
		s.runq = append(s.runq[:k:k], s.runq[k+1:]...)
		return g
	}
	// only idle-waiters are runnable
	if len(s.runq) > 0 {
		g := s.runq[0]
		s.runq = s.runq[1:]
		g.idleWait = false
		return g
	}
	return nil
}

// dispatch hands the baton to the next runnable goroutine; self (blocked or
// done) waits until it is woken again.
func (s *sched) dispatch(self *goroutine) {
	i := s.i
	var next *goroutine
	for {
		next = s.pickNext()
		if next != nil {
			break
		}
		if !s.fireNextTimer() {
			break
		}
	}
	if next == nil {
		i.p.deadlock(s)
		panic(abortPath{})
	}
	if next == self {
		self.state = gRunning
		i.curG = self
		return
	}
	next.state = gRunning
	i.curG = next
	next.wake <- struct{}{}
	if self.state == gDone {
		return
	}
	select {
	case <-self.wake:
	case <-s.done:
	}
	if i.dead {
		panic(abortPath{})
	}
	i.curG = self
	self.state = gRunning
}

// park blocks the current goroutine until another one makes it runnable.
func (s *sched) park(g *goroutine, why string) {
	g.state = gBlocked
	g.blockedOn = why
	s.dispatch(g)
}

func (s *sched) ready(g *goroutine) {
	if g.state == gBlocked {
		g.state = gRunnable
		g.timerOnly = false
		s.runq = append(s.runq, g)
	}
}

// yield is a scheduling point: with budget left, the exploration may switch
// to another runnable goroutine here.
func (s *sched) yield(g *goroutine, point string) {
	if s.switchBudget <= 0 || len(s.runq) == 0 {
		return
	}
	n := 0
	for _, r := range s.runq {
		if !r.idleWait {
			n++
		}
	}
	if n == 0 {
		return
	}
	k := s.i.p.choose(n+1, "sched@"+point)
	if k == 0 {
		return
	}
	s.switchBudget--
	// move the chosen goroutine to the front, self to the back
	idx := -1
	c := 0
	for j, r := range s.runq {
		if r.idleWait {
			continue
		}
		c++
		if c == k {
			idx = j
			break
		}
	}
	chosen := s.runq[idx]
	rest := append(append([]*goroutine{}, s.runq[:idx]...), s.runq[idx+1:]...)
	s.runq = append([]*goroutine{chosen}, rest...)
	g.state = gRunnable
	s.runq = append(s.runq, g)
	s.dispatch(g)
}

// gosched yields to all other runnable goroutines (runtime.Gosched).
func (s *sched) gosched(g *goroutine) {
	if len(s.runq) == 0 {
		return
	}
	g.state = gRunnable
	s.runq = append(s.runq, g)
	s.dispatch(g)
}

// waitIdle parks g until every other goroutine is blocked (synctest.Wait).
func (s *sched) waitIdle(g *goroutine) {
	if len(s.runq) == 0 {
		return
	}
	g.state = gRunnable
	g.idleWait = true
	s.runq = append(s.runq, g)
	s.dispatch(g)
}

func (s *sched) live() int {
	n := 0
	for _, g := range s.gs {
		if g.state != gDone {
			n++
		}
	}
	return n
}

// ---------------------------------------------------------------------
// timers

func (s *sched) addTimer(t *vtimer) {
	s.tseq++
	t.seq = s.tseq
	t.active = true
	s.timers = append(s.timers, t)
}

func (s *sched) fireNextTimer() bool {
	var best *vtimer
	for _, t := range s.timers {
		if !t.active {
			continue
		}
		if best == nil || t.due < best.due || (t.due == best.due && t.seq < best.seq) {
			best = t
		}
	}
	if best == nil {
		return false
	}
	if best.due > s.now {
		s.now = best.due
	}
	s.fire(best)
	// compact
	k := 0
	for _, t := range s.timers {
		if t.active {
			s.timers[k] = t
			k++
		}
	}
	s.timers = s.timers[:k]
	return true
}

func (s *sched) fire(t *vtimer) {
	t.firings++
	if t.period > 0 && t.firings < s.maxTicks {
		t.due += t.period
	} else {
		t.active = false
	}
	switch {
	case t.g != nil:
		s.ready(t.g)
	case t.fn != nil:
		s.spawn(s.i, t.fn, nil, token.NoPos)
	case t.ch != nil:
		// non-blocking send of the current time
		s.i.chanTrySend(t.ch, s.i.mkTime(s.now))
	}
}

func (s *sched) sleep(g *goroutine, d int64) {
	if d <= 0 {
		s.gosched(g)
		return
	}
	t := &vtimer{due: s.now + d, g: g}
	s.addTimer(t)
	g.timerOnly = true
	s.park(g, "sleep")
}

// ---------------------------------------------------------------------
// channels

type sudog struct {
	g     *goroutine
	val   value
	ok    bool
	sel   *selectOp
	idx   int
	done  bool
	panic bool // woken by close while sending
}

type selectOp struct {
	fired   bool
	chosen  int
	recvVal value
	recvOk  bool
	panic   bool
}

type hchan struct {
	cap    int
	buf    []value
	closed bool
	recvq  []*sudog
	sendq  []*sudog
	id     int
}

func (c *hchan) length() int {
	if c == nil {
		return 0
	}
	return len(c.buf)
}

func (i *interpreter) makeChan(t types.Type, n int) *hchan {
	if n < 0 {
		i.rtPanic("makechan: size out of range")
	}
	return &hchan{cap: n}
}

func live(q []*sudog) *sudog {
	for _, sg := range q {
		if sg.done || (sg.sel != nil && sg.sel.fired) {
			continue
		}
		return sg
	}
	return nil
}

func dequeue(q *[]*sudog) *sudog {
	for len(*q) > 0 {
		sg := (*q)[0]
		*q = (*q)[1:]
		if sg.done || (sg.sel != nil && sg.sel.fired) {
			continue
		}
		return sg
	}
	return nil
}

// complete marks a waiting sudog as served and makes its goroutine runnable.
func (s *sched) complete(sg *sudog, v value, ok bool) {
	sg.done = true
	sg.val = v
	sg.ok = ok
	if sg.sel != nil {
		sg.sel.fired = true
		sg.sel.chosen = sg.idx
		sg.sel.recvVal = v
		sg.sel.recvOk = ok
	}
	s.ready(sg.g)
}

func (i *interpreter) asChan(v value) *hchan {
	c, ok := v.(*hchan)
	if !ok {
		panic(engineFault{fmt.Sprintf("channel operand is %T", v)})
	}
	return c
}

func (i *interpreter) chanTrySend(c *hchan, v value) bool {
	if c.closed {
		return false
	}
	if sg := dequeue(&c.recvq); sg != nil {
		i.S.complete(sg, v, true)
		return true
	}
	if len(c.buf) < c.cap {
		c.buf = append(c.buf, v)
		return true
	}
	return false
}

func (i *interpreter) chanSend(fr *frame, cv value, v value) {
	c := i.asChan(cv)
	g := fr.g
	i.S.yield(g, "send")
	if c == nil {
		i.S.park(g, "send on nil channel")
		panic(engineFault{"woken from nil-channel send"})
	}
	if c.closed {
		panic(targetPanic{v: iface{i.runtimeErrorT, "send on closed channel"}})
	}
	if i.chanTrySend(c, v) {
		return
	}
	sg := &sudog{g: g, val: v}
	c.sendq = append(c.sendq, sg)
	i.S.park(g, "chan send")
	if sg.panic {
		panic(targetPanic{v: iface{i.runtimeErrorT, "send on closed channel"}})
	}
}

// chanTryRecv attempts a receive without blocking.
func (i *interpreter) chanTryRecv(c *hchan) (v value, ok bool, done bool) {
	if len(c.buf) > 0 {
		v = c.buf[0]
		c.buf = c.buf[1:]
		if sg := dequeue(&c.sendq); sg != nil {
			c.buf = append(c.buf, sg.val)
			i.S.complete(sg, nil, true)
		}
		return v, true, true
	}
	if sg := dequeue(&c.sendq); sg != nil {
		v = sg.val
		i.S.complete(sg, nil, true)
		return v, true, true
	}
	if c.closed {
		return nil, false, true
	}
	return nil, false, false
}

func (i *interpreter) chanRecv(fr *frame, cv value) (value, bool) {
	c := i.asChan(cv)
	g := fr.g
	i.S.yield(g, "recv")
	if c == nil {
		i.S.park(g, "receive from nil channel")
		panic(engineFault{"woken from nil-channel receive"})
	}
	if v, ok, done := i.chanTryRecv(c); done {
		return v, ok
	}
	sg := &sudog{g: g}
	c.recvq = append(c.recvq, sg)
	i.S.park(g, "chan receive")
	return sg.val, sg.ok
}

func (i *interpreter) chanClose(fr *frame, cv value) {
	c := i.asChan(cv)
	if fr != nil {
		i.S.yield(fr.g, "close")
	}
	if c == nil {
		panic(targetPanic{v: iface{i.runtimeErrorT, "close of nil channel"}})
	}
	if c.closed {
		panic(targetPanic{v: iface{i.runtimeErrorT, "close of closed channel"}})
	}
	c.closed = true
	for {
		sg := dequeue(&c.recvq)
		if sg == nil {
			break
		}
		i.S.complete(sg, nil, false)
	}
	for {
		sg := dequeue(&c.sendq)
		if sg == nil {
			break
		}
		sg.panic = true
		if sg.sel != nil {
			sg.sel.panic = true
		}
		i.S.complete(sg, nil, false)
	}
}

func (i *interpreter) selectStmt(fr *frame, instr *ssa.Select) value {
	g := fr.g
	i.S.yield(g, "select")
	type cs struct {
		c    *hchan
		send bool
		val  value
	}
	cases := make([]cs, len(instr.States))
	for k, st := range instr.States {
		cases[k].c = i.asChan(fr.get(st.Chan))
		if st.Dir == types.SendOnly {
			cases[k].send = true
			cases[k].val = fr.get(st.Send)
		}
	}
	var ready []int
	for k, c := range cases {
		if c.c == nil {
			continue
		}
		if c.send {
			if c.c.closed || live(c.c.recvq) != nil || len(c.c.buf) < c.c.cap {
				ready = append(ready, k)
			}
		} else {
			if len(c.c.buf) > 0 || live(c.c.sendq) != nil || c.c.closed {
				ready = append(ready, k)
			}
		}
	}
	chosen := -1
	var recvVal value
	recvOk := false
	if len(ready) > 0 {
		pick := 0
		if len(ready) > 1 && i.S.switchBudget > 0 {
			pick = i.p.choose(len(ready), "select")
		}
		chosen = ready[pick]
		c := cases[chosen]
		if c.send {
			if c.c.closed {
				panic(targetPanic{v: iface{i.runtimeErrorT, "send on closed channel"}})
			}
			if !i.chanTrySend(c.c, c.val) {
				panic(engineFault{"select: ready send failed"})
			}
		} else {
			v, ok, done := i.chanTryRecv(c.c)
			if !done {
				panic(engineFault{"select: ready recv failed"})
			}
			recvVal, recvOk = v, ok
		}
	} else if instr.Blocking {
		op := &selectOp{}
		n := 0
		for k, c := range cases {
			if c.c == nil {
				continue
			}
			n++
			sg := &sudog{g: g, sel: op, idx: k, val: c.val}
			if c.send {
				c.c.sendq = append(c.c.sendq, sg)
			} else {
				c.c.recvq = append(c.c.recvq, sg)
			}
		}
		i.S.park(g, "select")
		if !op.fired {
			panic(engineFault{"select woken without a fired case"})
		}
		if op.panic {
			panic(targetPanic{v: iface{i.runtimeErrorT, "send on closed channel"}})
		}
		chosen = op.chosen
		recvVal, recvOk = op.recvVal, op.recvOk
	}
	r := tuple{chosen, recvOk}
	for k, st := range instr.States {
		if st.Dir == types.RecvOnly {
			var v value
			if k == chosen && recvOk {
				v = recvVal
			} else {
				v = zero(st.Chan.Type().Underlying().(*types.Chan).Elem())
			}
			r = append(r, v)
		}
	}
	return r
}

// ---------------------------------------------------------------------
// sync primitives (state kept in side tables keyed by the object's address)

type vmutex struct {
	locked  bool
	waitq   []*goroutine
	readers int
	rwaitq  []*goroutine // blocked readers
	wwait   int          // writers waiting
}

func (i *interpreter) mutexOf(p *value) *vmutex {
	if p == nil {
		i.nilDeref()
	}
	if m, ok := i.side[p]; ok {
		return m.(*vmutex)
	}
	m := &vmutex{}
	i.side[p] = m
	return m
}

func (i *interpreter) mutexLock(fr *frame, p *value) {
	m := i.mutexOf(p)
	i.S.yield(fr.g, "lock")
	if !m.locked && m.readers == 0 {
		m.locked = true
		i.yieldHoldingObserved(fr)
		return
	}
	m.waitq = append(m.waitq, fr.g)
	m.wwait++
	i.S.park(fr.g, "mutex lock")
	// ownership was handed over by the unlocker
	i.yieldHoldingObserved(fr)
}

// yieldHoldingObserved: a mutex whose state some code observes with TryLock
// may be seen held, so another goroutine may run right after the acquisition.
func (i *interpreter) yieldHoldingObserved(fr *frame) {
	if len(i.L.tryLockFields) == 0 || fr == nil {
		return
	}
	// fr is the (empty) frame of the native Lock; the call is the caller's current instruction
	if fr.caller == nil {
		return
	}
	ci, ok := fr.caller.cur.(ssa.CallInstruction)
	if !ok || len(ci.Common().Args) == 0 {
		return
	}
	if k := mutexFieldKey(ci.Common().Args[0]); k != "" && i.L.tryLockFields[k] {
		i.S.yield(fr.g, "locked")
	}
}

func (i *interpreter) mutexTryLock(fr *frame, p *value) bool {
	m := i.mutexOf(p)
	if !m.locked && m.readers == 0 {
		m.locked = true
		return true
	}
	return false
}

func (i *interpreter) mutexUnlock(fr *frame, p *value) {
	m := i.mutexOf(p)
	if !m.locked {
		panic(targetPanic{v: iface{nil, "fatal error: sync: unlock of unlocked mutex"}})
	}
	i.mutexRelease(m)
	i.S.yield(fr.g, "unlock")
}

// mutexRelease releases the writer lock and hands over to waiters.
func (i *interpreter) mutexRelease(m *vmutex) {
	m.locked = false
	if len(m.waitq) > 0 {
		g := m.waitq[0]
		m.waitq = m.waitq[1:]
		m.wwait--
		m.locked = true
		i.S.ready(g)
		return
	}
	if len(m.rwaitq) > 0 {
		for _, g := range m.rwaitq {
			m.readers++
			i.S.ready(g)
		}
		m.rwaitq = nil
	}
}

func (i *interpreter) mutexRLock(fr *frame, p *value) {
	m := i.mutexOf(p)
	i.S.yield(fr.g, "rlock")
	if !m.locked && m.wwait == 0 {
		m.readers++
		return
	}
	m.rwaitq = append(m.rwaitq, fr.g)
	i.S.park(fr.g, "rwmutex rlock")
}

func (i *interpreter) mutexRUnlock(fr *frame, p *value) {
	m := i.mutexOf(p)
	if m.readers <= 0 {
		panic(targetPanic{v: iface{nil, "fatal error: sync: RUnlock of unlocked RWMutex"}})
	}
	m.readers--
	if m.readers == 0 && len(m.waitq) > 0 {
		g := m.waitq[0]
		m.waitq = m.waitq[1:]
		m.wwait--
		m.locked = true
		i.S.ready(g)
	}
	i.S.yield(fr.g, "runlock")
}

type vwaitgroup struct {
	n     int64
	waitq []*goroutine
}

func (i *interpreter) wgOf(p *value) *vwaitgroup {
	if p == nil {
		i.nilDeref()
	}
	if m, ok := i.side[p]; ok {
		return m.(*vwaitgroup)
	}
	m := &vwaitgroup{}
	i.side[p] = m
	return m
}

func (i *interpreter) wgAdd(fr *frame, p *value, d int64) {
	w := i.wgOf(p)
	w.n += d
	if w.n < 0 {
		panic(targetPanic{v: iface{nil, "sync: negative WaitGroup counter"}})
	}
	if w.n == 0 {
		for _, g := range w.waitq {
			i.S.ready(g)
		}
		w.waitq = nil
	}
}

func (i *interpreter) wgWait(fr *frame, p *value) {
	w := i.wgOf(p)
	i.S.yield(fr.g, "wg.Wait")
	if w.n == 0 {
		return
	}
	w.waitq = append(w.waitq, fr.g)
	i.S.park(fr.g, "WaitGroup.Wait")
}

type vcond struct {
	waitq []*goroutine
}

func (i *interpreter) condOf(p *value) *vcond {
	if m, ok := i.side[p]; ok {
		return m.(*vcond)
	}
	m := &vcond{}
	i.side[p] = m
	return m
}

// describeBlocked lists the blocked goroutines for a deadlock report.
func (s *sched) describeBlocked() []string {
	var out []string
	for _, g := range s.gs {
		if g.state == gBlocked {
			out = append(out, fmt.Sprintf("g%d[%s] blocked on %s", g.id, g.entry, g.blockedOn))
		}
	}
	sort.Strings(out)
	return out
}

// describeAll lists every goroutine that has not finished.
func (s *sched) describeAll() []string {
	var out []string
	for _, g := range s.gs {
		if g.state == gDone {
			continue
		}
		st := [...]string{"runnable", "running", "blocked", "done"}[g.state]
		out = append(out, fmt.Sprintf("g%d[%s] %s %s", g.id, g.entry, st, g.blockedOn))
	}
	return out
}
