package main

// Term DAG for bit-vector (width 1..64) and boolean (width 0) expressions,
// with hash-consing, constant folding, evaluation under a model and SMT-LIB2
// printing. One TermCtx per worker; not safe for concurrent use.

import (
	"fmt"
	"math/bits"
	"strings"
)

type Op uint8

const (
	OpConst Op = iota // bit-vector constant (w>0) or boolean constant (w==0)
	OpVar
	OpAdd
	OpSub
	OpMul
	OpUDiv
	OpURem
	OpSDiv
	OpSRem
	OpAnd
	OpOr
	OpXor
	OpShl
	OpLShr
	OpAShr
	OpNot // bvnot
	OpNeg
	OpConcat
	OpExtract // val = hi<<8 | lo
	OpZExt    // to width w
	OpSExt    // to width w
	OpIte     // a bool; b, c any
	OpEq      // bool result; args same sort (bv or bool)
	OpUlt
	OpUle
	OpSlt
	OpSle
	OpBAnd
	OpBOr
	OpBNot
)

var opNames = [...]string{"const", "var", "bvadd", "bvsub", "bvmul", "bvudiv", "bvurem", "bvsdiv", "bvsrem",
	"bvand", "bvor", "bvxor", "bvshl", "bvlshr", "bvashr", "bvnot", "bvneg", "concat", "extract", "zero_extend", "sign_extend",
	"ite", "=", "bvult", "bvule", "bvslt", "bvsle", "and", "or", "not"}

type Term struct {
	op      Op
	w       uint8 // 0 = Bool
	a, b, c *Term
	val     uint64
	name    string
	id      int
	ep      int // eval epoch
	ev      uint64
	emitted int // solver epoch in which a define-fun was sent
	vstate  uint8 // 0 unknown, 1 no var, 2 exactly one var (v1), 3 several
	v1      *Term
}

// oneVar returns the single variable t depends on, or nil.
func (t *Term) oneVar() *Term {
	t.varState()
	if t.vstate == 2 {
		return t.v1
	}
	return nil
}

func (t *Term) varState() {
	if t.vstate != 0 {
		return
	}
	switch t.op {
	case OpConst:
		t.vstate = 1
		return
	case OpVar:
		t.vstate, t.v1 = 2, t
		return
	}
	st := uint8(1)
	var v *Term
	for _, k := range [3]*Term{t.a, t.b, t.c} {
		if k == nil {
			continue
		}
		k.varState()
		switch k.vstate {
		case 3:
			st = 3
		case 2:
			if st == 1 {
				st, v = 2, k.v1
			} else if st == 2 && v != k.v1 {
				st = 3
			}
		}
		if st == 3 {
			break
		}
	}
	t.vstate, t.v1 = st, v
}

func (t *Term) IsConst() bool { return t.op == OpConst }
func (t *Term) IsBool() bool  { return t.w == 0 }

type termKey struct {
	op      Op
	w       uint8
	a, b, c int
	val     uint64
	name    string
}

type TermCtx struct {
	tab   map[termKey]*Term
	n     int
	vars  []*Term
	varBy map[string]*Term
	epoch int
	tt    *Term
	ff    *Term
}

func NewTermCtx() *TermCtx {
	c := &TermCtx{tab: map[termKey]*Term{}, varBy: map[string]*Term{}}
	c.tt = c.mk(OpConst, 0, nil, nil, nil, 1, "")
	c.ff = c.mk(OpConst, 0, nil, nil, nil, 0, "")
	return c
}

func tid(t *Term) int {
	if t == nil {
		return -1
	}
	return t.id
}

func (c *TermCtx) mk(op Op, w uint8, a, b, cc *Term, val uint64, name string) *Term {
	k := termKey{op, w, tid(a), tid(b), tid(cc), val, name}
	if t, ok := c.tab[k]; ok {
		return t
	}
	c.n++
	t := &Term{op: op, w: w, a: a, b: b, c: cc, val: val, name: name, id: c.n}
	c.tab[k] = t
	return t
}

func mask(w uint8) uint64 {
	if w >= 64 {
		return ^uint64(0)
	}
	return (uint64(1) << w) - 1
}

func sext64(v uint64, w uint8) int64 {
	if w >= 64 {
		return int64(v)
	}
	sh := 64 - uint(w)
	return int64(v<<sh) >> sh
}

func (c *TermCtx) Const(w uint8, v uint64) *Term {
	if w == 0 {
		panic("Const: width 0")
	}
	return c.mk(OpConst, w, nil, nil, nil, v&mask(w), "")
}
func (c *TermCtx) Bool(b bool) *Term {
	if b {
		return c.tt
	}
	return c.ff
}
func (c *TermCtx) Var(name string, w uint8) *Term {
	if t, ok := c.varBy[name]; ok {
		if t.w != w {
			panic(fmt.Sprintf("Var %s redeclared with width %d (was %d)", name, w, t.w))
		}
		return t
	}
	t := c.mk(OpVar, w, nil, nil, nil, 0, name)
	c.varBy[name] = t
	c.vars = append(c.vars, t)
	return t
}

func (c *TermCtx) Bin(op Op, a, b *Term) *Term {
	if a.w != b.w {
		panic(fmt.Sprintf("Bin %s: width mismatch %d vs %d", opNames[op], a.w, b.w))
	}
	w := a.w
	if a.IsConst() && b.IsConst() {
		if v, ok := foldBin(op, w, a.val, b.val); ok {
			return c.Const(w, v)
		}
	}
	switch op {
	case OpAdd:
		if a.IsConst() && a.val == 0 {
			return b
		}
		if b.IsConst() && b.val == 0 {
			return a
		}
		if a.IsConst() { // canonical: const on the right
			a, b = b, a
		}
		// (x + c1) + c2
		if b.IsConst() && a.op == OpAdd && a.b.IsConst() {
			return c.Bin(OpAdd, a.a, c.Const(w, a.b.val+b.val))
		}
	case OpSub:
		if b.IsConst() && b.val == 0 {
			return a
		}
		if a == b {
			return c.Const(w, 0)
		}
		if b.IsConst() {
			return c.Bin(OpAdd, a, c.Const(w, -b.val))
		}
	case OpMul:
		if a.IsConst() {
			a, b = b, a
		}
		if b.IsConst() {
			if b.val == 0 {
				return b
			}
			if b.val == 1 {
				return a
			}
		}
	case OpAnd:
		if a.IsConst() {
			a, b = b, a
		}
		if b.IsConst() {
			if b.val == 0 {
				return b
			}
			if b.val == mask(w) {
				return a
			}
		}
		if a == b {
			return a
		}
	case OpOr:
		if a.IsConst() {
			a, b = b, a
		}
		if b.IsConst() {
			if b.val == 0 {
				return a
			}
			if b.val == mask(w) {
				return b
			}
		}
		if a == b {
			return a
		}
	case OpXor:
		if a.IsConst() {
			a, b = b, a
		}
		if b.IsConst() && b.val == 0 {
			return a
		}
		if a == b {
			return c.Const(w, 0)
		}
	case OpShl, OpLShr, OpAShr:
		if b.IsConst() && b.val == 0 {
			return a
		}
		if a.IsConst() && a.val == 0 {
			return a
		}
		if b.IsConst() && b.val >= uint64(w) && op != OpAShr {
			return c.Const(w, 0)
		}
	case OpUDiv:
		if b.IsConst() && b.val == 1 {
			return a
		}
	case OpURem:
		if b.IsConst() && b.val == 1 {
			return c.Const(w, 0)
		}
	}
	// commutative canonical order
	switch op {
	case OpAdd, OpMul, OpAnd, OpOr, OpXor:
		if !b.IsConst() && a.id > b.id {
			a, b = b, a
		}
	}
	return c.mk(op, w, a, b, nil, 0, "")
}

func foldBin(op Op, w uint8, x, y uint64) (uint64, bool) {
	m := mask(w)
	switch op {
	case OpAdd:
		return (x + y) & m, true
	case OpSub:
		return (x - y) & m, true
	case OpMul:
		return (x * y) & m, true
	case OpUDiv:
		if y == 0 {
			return m, true
		}
		return x / y, true
	case OpURem:
		if y == 0 {
			return x, true
		}
		return x % y, true
	case OpSDiv:
		sx, sy := sext64(x, w), sext64(y, w)
		if sy == 0 {
			if sx >= 0 {
				return m, true
			}
			return 1, true
		}
		if sy == -1 {
			return uint64(-sx) & m, true
		}
		return uint64(sx/sy) & m, true
	case OpSRem:
		sx, sy := sext64(x, w), sext64(y, w)
		if sy == 0 {
			return x, true
		}
		if sy == -1 {
			return 0, true
		}
		return uint64(sx%sy) & m, true
	case OpAnd:
		return x & y, true
	case OpOr:
		return x | y, true
	case OpXor:
		return x ^ y, true
	case OpShl:
		if y >= uint64(w) {
			return 0, true
		}
		return (x << y) & m, true
	case OpLShr:
		if y >= uint64(w) {
			return 0, true
		}
		return x >> y, true
	case OpAShr:
		sx := sext64(x, w)
		if y >= uint64(w) {
			y = uint64(w) - 1
		}
		return uint64(sx>>y) & m, true
	}
	return 0, false
}

func (c *TermCtx) Not(a *Term) *Term { // bvnot
	if a.IsConst() {
		return c.Const(a.w, ^a.val)
	}
	if a.op == OpNot {
		return a.a
	}
	return c.mk(OpNot, a.w, a, nil, nil, 0, "")
}
func (c *TermCtx) Neg(a *Term) *Term {
	if a.IsConst() {
		return c.Const(a.w, -a.val)
	}
	return c.mk(OpNeg, a.w, a, nil, nil, 0, "")
}

func (c *TermCtx) Extract(a *Term, hi, lo uint8) *Term {
	w := hi - lo + 1
	if lo == 0 && w == a.w {
		return a
	}
	if a.IsConst() {
		return c.Const(w, a.val>>lo)
	}
	switch a.op {
	case OpZExt:
		if hi < a.a.w {
			return c.Extract(a.a, hi, lo)
		}
		if lo >= a.a.w {
			return c.Const(w, 0)
		}
	case OpSExt:
		if hi < a.a.w {
			return c.Extract(a.a, hi, lo)
		}
	case OpConcat:
		lw := a.b.w
		if hi < lw {
			return c.Extract(a.b, hi, lo)
		}
		if lo >= lw {
			return c.Extract(a.a, hi-lw, lo-lw)
		}
	case OpExtract:
		l0 := uint8(a.val & 0xff)
		return c.Extract(a.a, hi+l0, lo+l0)
	case OpAnd, OpOr, OpXor:
		if lo == 0 || true {
			return c.Bin(a.op, c.Extract(a.a, hi, lo), c.Extract(a.b, hi, lo))
		}
	case OpAdd, OpSub, OpMul:
		if lo == 0 {
			return c.Bin(a.op, c.Extract(a.a, hi, 0), c.Extract(a.b, hi, 0))
		}
	}
	return c.mk(OpExtract, w, a, nil, nil, uint64(hi)<<8|uint64(lo), "")
}

func (c *TermCtx) Concat(a, b *Term) *Term {
	w := a.w + b.w
	if w > 64 {
		panic("Concat: width > 64")
	}
	if a.IsConst() && b.IsConst() {
		return c.Const(w, a.val<<b.w|b.val)
	}
	if a.IsConst() && a.val == 0 {
		return c.ZExt(b, w)
	}
	return c.mk(OpConcat, w, a, b, nil, 0, "")
}

func (c *TermCtx) ZExt(a *Term, w uint8) *Term {
	if w == a.w {
		return a
	}
	if w < a.w {
		return c.Extract(a, w-1, 0)
	}
	if a.IsConst() {
		return c.Const(w, a.val)
	}
	if a.op == OpZExt {
		return c.ZExt(a.a, w)
	}
	return c.mk(OpZExt, w, a, nil, nil, 0, "")
}

func (c *TermCtx) SExt(a *Term, w uint8) *Term {
	if w == a.w {
		return a
	}
	if w < a.w {
		return c.Extract(a, w-1, 0)
	}
	if a.IsConst() {
		return c.Const(w, uint64(sext64(a.val, a.w)))
	}
	return c.mk(OpSExt, w, a, nil, nil, 0, "")
}

func (c *TermCtx) Ite(cond, a, b *Term) *Term {
	if cond.IsConst() {
		if cond.val != 0 {
			return a
		}
		return b
	}
	if a == b {
		return a
	}
	if a.w != b.w {
		panic("Ite: sort mismatch")
	}
	if a.w == 0 {
		// boolean ite
		if a.IsConst() && b.IsConst() {
			if a.val != 0 { // ite(c, true, false)
				return cond
			}
			return c.BNot(cond)
		}
		if a.IsConst() {
			if a.val != 0 {
				return c.BOr(cond, b)
			}
			return c.BAnd(c.BNot(cond), b)
		}
		if b.IsConst() {
			if b.val != 0 {
				return c.BOr(c.BNot(cond), a)
			}
			return c.BAnd(cond, a)
		}
	}
	if cond.op == OpBNot {
		return c.mk(OpIte, a.w, cond.a, b, a, 0, "")
	}
	return c.mk(OpIte, a.w, cond, a, b, 0, "")
}

func (c *TermCtx) Eq(a, b *Term) *Term {
	if a.w != b.w {
		panic(fmt.Sprintf("Eq: sort mismatch %d vs %d", a.w, b.w))
	}
	if a == b {
		return c.tt
	}
	if a.IsConst() && b.IsConst() {
		return c.Bool(a.val == b.val)
	}
	if a.w == 0 {
		if a.IsConst() {
			a, b = b, a
		}
		if b.IsConst() {
			if b.val != 0 {
				return a
			}
			return c.BNot(a)
		}
	}
	if a.IsConst() {
		a, b = b, a
	}
	if b.IsConst() {
		switch a.op {
		case OpZExt:
			if b.val > mask(a.a.w) {
				return c.ff
			}
			return c.Eq(a.a, c.Const(a.a.w, b.val))
		case OpIte:
			if a.b.IsConst() && a.c.IsConst() {
				tb, tc := a.b.val == b.val, a.c.val == b.val
				switch {
				case tb && tc:
					return c.tt
				case tb:
					return a.a
				case tc:
					return c.BNot(a.a)
				default:
					return c.ff
				}
			}
		case OpXor:
			if a.b.IsConst() {
				return c.Eq(a.a, c.Const(a.w, a.b.val^b.val))
			}
			if b.val == 0 {
				return c.Eq(a.a, a.b)
			}
		case OpAdd:
			if a.b.IsConst() {
				return c.Eq(a.a, c.Const(a.w, b.val-a.b.val))
			}
		case OpConcat:
			return c.BAnd(c.Eq(a.a, c.Const(a.a.w, b.val>>a.b.w)), c.Eq(a.b, c.Const(a.b.w, b.val)))
		}
	} else if a.id > b.id {
		a, b = b, a
	}
	return c.mk(OpEq, 0, a, b, nil, 0, "")
}

func (c *TermCtx) Cmp(op Op, a, b *Term) *Term {
	if a.w != b.w {
		panic("Cmp: width mismatch")
	}
	if a.IsConst() && b.IsConst() {
		switch op {
		case OpUlt:
			return c.Bool(a.val < b.val)
		case OpUle:
			return c.Bool(a.val <= b.val)
		case OpSlt:
			return c.Bool(sext64(a.val, a.w) < sext64(b.val, b.w))
		case OpSle:
			return c.Bool(sext64(a.val, a.w) <= sext64(b.val, b.w))
		}
	}
	if a == b {
		return c.Bool(op == OpUle || op == OpSle)
	}
	switch op {
	case OpUlt:
		if b.IsConst() && b.val == 0 {
			return c.ff
		}
		if a.IsConst() && a.val == mask(a.w) {
			return c.ff
		}
		if b.IsConst() && a.op == OpZExt && b.val > mask(a.a.w) {
			return c.tt
		}
	case OpUle:
		if a.IsConst() && a.val == 0 {
			return c.tt
		}
		if b.IsConst() && b.val == mask(b.w) {
			return c.tt
		}
		if b.IsConst() && a.op == OpZExt && b.val >= mask(a.a.w) {
			return c.tt
		}
	case OpSlt:
		// zext'd values are non-negative
		if a.op == OpZExt && b.IsConst() && sext64(b.val, b.w) <= 0 {
			return c.ff
		}
		if a.op == OpZExt && b.IsConst() && sext64(b.val, b.w) > int64(mask(a.a.w)) {
			return c.tt
		}
		if b.op == OpZExt && a.IsConst() && sext64(a.val, a.w) < 0 {
			return c.tt
		}
	case OpSle:
		if a.op == OpZExt && b.IsConst() && sext64(b.val, b.w) < 0 {
			return c.ff
		}
		if a.op == OpZExt && b.IsConst() && sext64(b.val, b.w) >= int64(mask(a.a.w)) {
			return c.tt
		}
		if b.op == OpZExt && a.IsConst() && sext64(a.val, a.w) <= 0 {
			return c.tt
		}
	}
	return c.mk(op, 0, a, b, nil, 0, "")
}

func (c *TermCtx) BNot(a *Term) *Term {
	if a.IsConst() {
		return c.Bool(a.val == 0)
	}
	if a.op == OpBNot {
		return a.a
	}
	return c.mk(OpBNot, 0, a, nil, nil, 0, "")
}

func (c *TermCtx) BAnd(a, b *Term) *Term {
	if a.IsConst() {
		if a.val != 0 {
			return b
		}
		return a
	}
	if b.IsConst() {
		if b.val != 0 {
			return a
		}
		return b
	}
	if a == b {
		return a
	}
	if (a.op == OpBNot && a.a == b) || (b.op == OpBNot && b.a == a) {
		return c.ff
	}
	if a.id > b.id {
		a, b = b, a
	}
	return c.mk(OpBAnd, 0, a, b, nil, 0, "")
}

func (c *TermCtx) BOr(a, b *Term) *Term {
	if a.IsConst() {
		if a.val != 0 {
			return a
		}
		return b
	}
	if b.IsConst() {
		if b.val != 0 {
			return b
		}
		return a
	}
	if a == b {
		return a
	}
	if (a.op == OpBNot && a.a == b) || (b.op == OpBNot && b.a == a) {
		return c.tt
	}
	if a.id > b.id {
		a, b = b, a
	}
	return c.mk(OpBOr, 0, a, b, nil, 0, "")
}

func (c *TermCtx) Implies(a, b *Term) *Term { return c.BOr(c.BNot(a), b) }

// ---------------------------------------------------------------------
// Evaluation under a model (map var name -> value). Missing vars are 0.

type Model map[string]uint64

func (c *TermCtx) Eval(t *Term, m Model) uint64 {
	c.epoch++
	return c.eval(t, m)
}

func (c *TermCtx) eval(t *Term, m Model) uint64 {
	if t.op == OpConst {
		return t.val
	}
	if t.ep == c.epoch {
		return t.ev
	}
	var v uint64
	switch t.op {
	case OpVar:
		v = m[t.name] & mask1(t.w)
	case OpNot:
		v = ^c.eval(t.a, m) & mask(t.w)
	case OpNeg:
		v = -c.eval(t.a, m) & mask(t.w)
	case OpConcat:
		v = c.eval(t.a, m)<<t.b.w | c.eval(t.b, m)
	case OpExtract:
		lo := uint8(t.val & 0xff)
		v = (c.eval(t.a, m) >> lo) & mask(t.w)
	case OpZExt:
		v = c.eval(t.a, m)
	case OpSExt:
		v = uint64(sext64(c.eval(t.a, m), t.a.w)) & mask(t.w)
	case OpIte:
		if c.eval(t.a, m) != 0 {
			v = c.eval(t.b, m)
		} else {
			v = c.eval(t.c, m)
		}
	case OpEq:
		v = b2u(c.eval(t.a, m) == c.eval(t.b, m))
	case OpUlt:
		v = b2u(c.eval(t.a, m) < c.eval(t.b, m))
	case OpUle:
		v = b2u(c.eval(t.a, m) <= c.eval(t.b, m))
	case OpSlt:
		v = b2u(sext64(c.eval(t.a, m), t.a.w) < sext64(c.eval(t.b, m), t.b.w))
	case OpSle:
		v = b2u(sext64(c.eval(t.a, m), t.a.w) <= sext64(c.eval(t.b, m), t.b.w))
	case OpBAnd:
		v = b2u(c.eval(t.a, m) != 0 && c.eval(t.b, m) != 0)
	case OpBOr:
		v = b2u(c.eval(t.a, m) != 0 || c.eval(t.b, m) != 0)
	case OpBNot:
		v = b2u(c.eval(t.a, m) == 0)
	default:
		r, ok := foldBin(t.op, t.w, c.eval(t.a, m), c.eval(t.b, m))
		if !ok {
			panic("eval: unknown op " + opNames[t.op])
		}
		v = r
	}
	t.ep = c.epoch
	t.ev = v
	return v
}

func mask1(w uint8) uint64 {
	if w == 0 {
		return 1
	}
	return mask(w)
}

func b2u(b bool) uint64 {
	if b {
		return 1
	}
	return 0
}

// ---------------------------------------------------------------------
// SMT-LIB2 printing

func sortStr(w uint8) string {
	if w == 0 {
		return "Bool"
	}
	return fmt.Sprintf("(_ BitVec %d)", w)
}

func constStr(w uint8, v uint64) string {
	if w == 0 {
		if v != 0 {
			return "true"
		}
		return "false"
	}
	if w%4 == 0 {
		return fmt.Sprintf("#x%0*x", int(w/4), v)
	}
	return fmt.Sprintf("#b%0*b", int(w), v)
}

// ref returns the SMT name of a term that has been emitted, or its literal.
func (t *Term) ref() string {
	switch t.op {
	case OpConst:
		return constStr(t.w, t.val)
	case OpVar:
		return "|" + t.name + "|"
	}
	return fmt.Sprintf("t%d", t.id)
}

// Emit writes declarations/definitions for t (and its sub-terms not yet emitted
// in solver epoch ep) to sb and returns the reference string of t.
func (c *TermCtx) Emit(sb *strings.Builder, t *Term, ep int) string {
	if t.op == OpConst {
		return t.ref()
	}
	if t.emitted == ep {
		return t.ref()
	}
	// iterative post-order to avoid deep recursion
	type fr struct {
		t *Term
		i int
	}
	stack := []fr{{t, 0}}
	for len(stack) > 0 {
		f := &stack[len(stack)-1]
		x := f.t
		if x.op == OpConst || x.emitted == ep {
			stack = stack[:len(stack)-1]
			continue
		}
		var kid *Term
		switch f.i {
		case 0:
			kid = x.a
		case 1:
			kid = x.b
		case 2:
			kid = x.c
		}
		if f.i < 3 {
			f.i++
			if kid != nil && kid.op != OpConst && kid.emitted != ep {
				stack = append(stack, fr{kid, 0})
			}
			continue
		}
		// emit x
		x.emitted = ep
		if x.op == OpVar {
			fmt.Fprintf(sb, "(declare-const |%s| %s)\n", x.name, sortStr(x.w))
		} else {
			fmt.Fprintf(sb, "(define-fun t%d () %s ", x.id, sortStr(x.w))
			switch x.op {
			case OpExtract:
				fmt.Fprintf(sb, "((_ extract %d %d) %s)", x.val>>8, x.val&0xff, x.a.ref())
			case OpZExt:
				fmt.Fprintf(sb, "((_ zero_extend %d) %s)", x.w-x.a.w, x.a.ref())
			case OpSExt:
				fmt.Fprintf(sb, "((_ sign_extend %d) %s)", x.w-x.a.w, x.a.ref())
			default:
				sb.WriteString("(" + opNames[x.op])
				for _, k := range []*Term{x.a, x.b, x.c} {
					if k != nil {
						sb.WriteString(" " + k.ref())
					}
				}
				sb.WriteString(")")
			}
			sb.WriteString(")\n")
		}
		stack = stack[:len(stack)-1]
	}
	return t.ref()
}

// String renders a term for diagnostics (bounded depth).
func (t *Term) String() string { return t.str(4) }
func (t *Term) str(d int) string {
	switch t.op {
	case OpConst:
		if t.w == 0 {
			return constStr(0, t.val)
		}
		return fmt.Sprintf("%d:bv%d", t.val, t.w)
	case OpVar:
		return t.name
	}
	if d == 0 {
		return "…"
	}
	s := "(" + opNames[t.op]
	if t.op == OpExtract {
		s += fmt.Sprintf("[%d:%d]", t.val>>8, t.val&0xff)
	}
	for _, k := range []*Term{t.a, t.b, t.c} {
		if k != nil {
			s += " " + k.str(d-1)
		}
	}
	return s + ")"
}

// Vars collects the variables occurring in t into set.
func (t *Term) Vars(set map[string]uint8, seen map[int]bool) {
	if t == nil || seen[t.id] {
		return
	}
	seen[t.id] = true
	if t.op == OpVar {
		set[t.name] = t.w
		return
	}
	t.a.Vars(set, seen)
	t.b.Vars(set, seen)
	t.c.Vars(set, seen)
}

var _ = bits.Len
