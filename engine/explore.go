package main

// Path exploration by re-execution with a decision prefix.

import (
	"hash/fnv"
	"fmt"
	"go/types"
	"os"
	"runtime/debug"
	"sort"
	"strings"
	"sync"
	"sync/atomic"
	"time"

	"golang.org/x/tools/go/ssa"
)

type decision struct {
	V uint64 `json:"v"`
	B bool   `json:"b"`
	K uint8  `json:"k"` // 0 branch, 1 concretise, 2 enumerated choice
}

type outcomeKind int

const (
	outNone outcomeKind = iota
	outReturn
	outPanic
	outDeadlock
	outAssumeFalse
	outInfeasible
	outAbort
	outStopped
)

var outcomeNames = [...]string{"none", "return", "panic", "deadlock", "assume-false", "infeasible", "abort", "stopped"}

type Violation struct {
	Harness  string            `json:"harness"`
	Kind     string            `json:"kind"` // assert | panic | deadlock
	Label    string            `json:"label"`
	Detail   string            `json:"detail,omitempty"`
	Site     string            `json:"site,omitempty"`
	Stack    []string          `json:"stack,omitempty"`
	Model    map[string]uint64 `json:"model"`
	Trail    []decision        `json:"trail"`
	Params   map[string]int    `json:"params"`
	Observed []string          `json:"observed,omitempty"`
	HashIns  []string          `json:"hash_inputs,omitempty"`
}

func (v *Violation) Key() string { return v.Harness + "|" + v.Kind + "|" + v.Label + "|" + v.Site }

type siteStat struct {
	Reached    int `json:"reached"`
	Trivial    int `json:"trivial"`
	Discharged int `json:"discharged"`
	Violated   int `json:"violated"`
}

// Explorer holds the shared state of one harness run.
type Explorer struct {
	L       *Loaded
	H       *HarnessSpec
	fn      *ssa.Function
	params  map[string]int
	mu      sync.Mutex
	cond    *sync.Cond
	stack   []workItem
	active  int
	stop    bool
	maxPath int

	// results
	Paths        int
	Outcomes     map[string]int
	Decisions    int
	Forks        int
	Violations   []*Violation
	violKeys     map[string]int
	Inconclusive []string
	Sites        map[string]*siteStat
	Reach        map[string]int
	Samples      []map[string]any
	PassSamples  []*Violation // passing paths kept for native validation (-validate N)
	validateN    int
	passMaxHash  uint64
	SymVars      int
	MaxSymVars   int
	Steps        int64
	Funcs        map[string]int
	Queries      int
	QSat         int
	QUnsat       int
	QUnknown     int
	SolverTime   time.Duration
	NontrivPaths int
	Stubs        map[string]int
	deadline     time.Time
	maxSteps     int64
	solverKind   string
	verbose      bool
	trace        bool
	debugForced  bool
	cheap        int64
	replayModel  Model // concrete replay mode: inputs come from this model
	replayTrail  []decision
	Observations [][]string // per path (only kept in replay mode)
}

type worker struct {
	E       *Explorer
	id      int
	solver  *Solver
	infos   map[*ssa.Function]*fnInfo
	ifcache map[string]string
	verbose bool
	pool    []Model
	poolPos int
}

const poolSize = 48

func (w *worker) addModel(m Model) {
	if len(w.pool) < poolSize {
		w.pool = append(w.pool, m)
		return
	}
	w.pool[w.poolPos%poolSize] = m
	w.poolPos++
}

type fnInfo struct {
	native    nativeFn
	intercept *ssa.Function
	stub      bool
	lazyInit  bool
	pkg       *ssa.Package
	nvals     int
	calls     int
	name      string
	idx       map[ssa.Value]int
	skip      map[ssa.Instruction]*fillInfo
}

func (in *fnInfo) buildIndex(fn *ssa.Function) {
	idx := map[ssa.Value]int{}
	for _, p := range fn.Params {
		idx[p] = len(idx)
	}
	for _, p := range fn.FreeVars {
		idx[p] = len(idx)
	}
	for _, b := range fn.Blocks {
		for _, ins := range b.Instrs {
			if v, ok := ins.(ssa.Value); ok {
				idx[v] = len(idx)
			}
		}
	}
	in.idx = idx
}

func (w *worker) fnInfo(fn *ssa.Function) *fnInfo {
	if in, ok := w.infos[fn]; ok {
		return in
	}
	in := &fnInfo{name: fn.String()}
	L := w.E.L
	in.pkg = fnPkg(fn)
	name := fn.String()
	var oname string
	if o := fn.Origin(); o != nil {
		oname = o.String()
	}
	if nf := L.lookupNative(fn, name, oname); nf != nil {
		in.native = nf
	} else if tgt := w.E.H.interceptFor(L, name, oname); tgt != nil {
		in.intercept = tgt
	} else if in.pkg != nil && L.isStubPkg(in.pkg.Pkg.Path()) {
		in.stub = true
	} else if isPkgInit(fn) {
		in.lazyInit = true
	}
	for _, b := range fn.Blocks {
		in.nvals += len(b.Instrs)
	}
	w.infos[fn] = in
	return in
}

func (w *worker) checkInterface(itype *types.Interface, x iface) string {
	key := x.t.String() + "|" + itype.String()
	if r, ok := w.ifcache[key]; ok {
		return r
	}
	r := checkInterface(itype, x)
	w.ifcache[key] = r
	return r
}

// pathCtx is the state of the path being executed by a worker.
type pathCtx struct {
	w       *worker
	i       *interpreter
	E       *Explorer
	prefix  []decision
	pos     int
	trail   []decision
	pc      []*Term
	pending []*Term
	model   Model
	live    []Model
	pcSet   map[int]bool
	dom     *domains
	outcome outcomeKind
	ended   bool
	endMu   sync.Mutex
	nvars   int
	occ     map[string]int
	observed []string
	nontrivial bool
	reached map[string]bool
	inconcl []string
	concrete bool // replay mode
	expectPanic string
	expectDeadlock bool
	violated bool
	deferred []deferredAssert
}

func (p *pathCtx) inconclusive(format string, args ...any) {
	msg := fmt.Sprintf(format, args...)
	p.inconcl = append(p.inconcl, msg)
}

// end terminates the path: all goroutines are unwound.
func (p *pathCtx) end(o outcomeKind) {
	p.endMu.Lock()
	if p.ended {
		p.endMu.Unlock()
		return
	}
	p.ended = true
	p.outcome = o
	p.i.dead = true
	p.endMu.Unlock()
	p.i.S.finish()
}

func (p *pathCtx) kill(o outcomeKind) {
	p.end(o)
	panic(abortPath{})
}

func (p *pathCtx) flush() {
	for _, t := range p.pending {
		p.w.solver.Assert(t)
	}
	p.pending = p.pending[:0]
}

func (p *pathCtx) assume(t *Term) {
	if t.IsConst() {
		if t.val == 0 {
			p.kill(outInfeasible)
		}
		return
	}
	p.pc = append(p.pc, t)
	p.pending = append(p.pending, t)
	p.noteFact(t)
	p.dom.learn(t)
	tc := p.i.tc
	if len(p.live) > 0 {
		k := 0
		for _, m := range p.live {
			if tc.Eval(t, m) != 0 {
				p.live[k] = m
				k++
			}
		}
		p.live = p.live[:k]
	}
	if p.model != nil && tc.Eval(t, p.model) == 0 {
		p.model = nil
	}
	if p.model == nil && len(p.live) > 0 {
		p.model = p.live[0]
	}
}

func (p *pathCtx) noteFact(t *Term) {
	p.pcSet[t.id] = true
	if t.op == OpBAnd {
		p.noteFact(t.a)
		p.noteFact(t.b)
	}
}

// learn records a model returned by the solver for the current path condition
// (possibly plus extra constraints that are about to be assumed).
func (p *pathCtx) learn(m Model, satisfiesPC bool) {
	if m == nil {
		return
	}
	p.w.addModel(m)
	if satisfiesPC {
		p.live = append(p.live, m)
	}
}

// check runs a solver query under the path condition.
func (p *pathCtx) check(extra []*Term, wantModel bool) (SatResult, Model) {
	p.flush()
	res, m, err := p.w.solver.Check(extra, wantModel)
	if err != nil || p.w.solver.dead {
		p.inconclusive("solver failure: %v", err)
		p.w.restartSolver()
		p.kill(outAbort)
	}
	if res == Unknown {
		p.inconclusive("solver returned unknown (timeout %d ms)", p.w.solver.timeout)
	}
	return res, m
}

func (p *pathCtx) getModel() Model {
	if p.model != nil {
		return p.model
	}
	if p.concrete {
		return p.E.replayModel
	}
	if len(p.live) > 0 {
		p.model = p.live[0]
		return p.model
	}
	res, m := p.check(nil, true)
	switch res {
	case Sat:
		p.model = m
		p.learn(m, true)
		return m
	case Unsat:
		p.kill(outInfeasible)
	default:
		p.kill(outAbort)
	}
	return nil
}

// branch decides a symbolic condition, forking when both sides are feasible.
func (p *pathCtx) branch(c *Term) bool {
	if c.IsConst() {
		return c.val != 0
	}
	tc := p.i.tc
	if p.concrete {
		return tc.Eval(c, p.E.replayModel) != 0
	}
	if p.pos < len(p.prefix) {
		d := p.prefix[p.pos]
		p.pos++
		if d.K != 0 {
			p.inconclusive("nondeterministic re-execution: expected branch decision, prefix has kind %d", d.K)
			p.kill(outAbort)
		}
		p.trail = append(p.trail, d)
		if d.B {
			p.assume(c)
		} else {
			p.assume(tc.BNot(c))
		}
		return d.B
	}
	if p.pcSet[c.id] {
		p.trail = append(p.trail, decision{B: true})
		return true
	}
	if p.pcSet[tc.BNot(c).id] {
		p.trail = append(p.trail, decision{B: false})
		return false
	}
	if dv, ok := p.dom.decide(c); ok {
		p.trail = append(p.trail, decision{B: dv})
		atomic.AddInt64(&p.E.cheap, 1)
		return dv
	}
	m := p.getModel()
	v := tc.Eval(c, m) != 0
	other := c
	if v {
		other = tc.BNot(c)
	}
	res := Unknown
	var om Model
	for _, lm := range p.live {
		if (tc.Eval(c, lm) != 0) != v {
			res, om = Sat, lm
			break
		}
	}
	if res != Sat {
		res, om = p.check([]*Term{other}, true)
		if res == Sat {
			p.learn(om, true)
		}
	}
	if res == Unsat && p.E.debugForced {
		fmt.Printf("FORCED %v: %s  @ %s\n", v, c.str(6), p.i.whereNow())
	}
	d := decision{B: v}
	if res == Sat {
		sib := make([]decision, len(p.trail)+1)
		copy(sib, p.trail)
		sib[len(p.trail)] = decision{B: !v}
		p.E.push(sib, om)
		if p.E.debugForced {
			fmt.Printf("FORK %s :: %s\n", p.i.whereNow(), c.str(3))
		}
	}
	p.trail = append(p.trail, d)
	if v {
		p.assume(c)
	} else {
		p.assume(tc.BNot(c))
	}
	return v
}

const maxConcretize = 40

// concretize picks a concrete value for t, forking over all feasible values.
func (p *pathCtx) concretize(t *Term, what string) uint64 {
	tc := p.i.tc
	if p.concrete {
		return tc.Eval(t, p.E.replayModel)
	}
	for n := 0; ; n++ {
		if t.IsConst() {
			return t.val
		}
		if n > maxConcretize {
			p.inconclusive("more than %d feasible values for %s (%s)", maxConcretize, what, t)
			p.kill(outAbort)
		}
		if p.pos < len(p.prefix) {
			d := p.prefix[p.pos]
			p.pos++
			if d.K != 1 {
				p.inconclusive("nondeterministic re-execution: expected concretise decision")
				p.kill(outAbort)
			}
			p.trail = append(p.trail, d)
			eq := tc.Eq(t, tc.Const(t.w, d.V))
			if d.B {
				p.assume(eq)
				return d.V
			}
			p.assume(tc.BNot(eq))
			continue
		}
		m := p.getModel()
		v := tc.Eval(t, m)
		eq := tc.Eq(t, tc.Const(t.w, v))
		res := Unknown
		var om Model
		for _, lm := range p.live {
			if tc.Eval(t, lm) != v {
				res, om = Sat, lm
				break
			}
		}
		if res != Sat {
			res, om = p.check([]*Term{tc.BNot(eq)}, true)
			if res == Sat {
				p.learn(om, true)
			}
		}
		if res == Sat {
			sib := make([]decision, len(p.trail)+1)
			copy(sib, p.trail)
			sib[len(p.trail)] = decision{V: v, B: false, K: 1}
			p.E.push(sib, om)
			if p.E.debugForced {
				fmt.Printf("FORK %s :: concretize %s\n", p.i.whereNow(), what)
			}
		}
		p.trail = append(p.trail, decision{V: v, B: true, K: 1})
		p.assume(eq)
		return v
	}
}

// choose is an enumerated (not solver-decided) choice in [0,n).
func (p *pathCtx) choose(n int, what string) int {
	if n <= 1 {
		return 0
	}
	if p.concrete {
		if p.pos < len(p.E.replayTrail) {
			// replay follows the recorded enumerated choices
			for p.pos < len(p.E.replayTrail) {
				d := p.E.replayTrail[p.pos]
				p.pos++
				if d.K == 2 {
					return int(d.V)
				}
			}
		}
		return 0
	}
	if p.pos < len(p.prefix) {
		d := p.prefix[p.pos]
		p.pos++
		if d.K != 2 {
			p.inconclusive("nondeterministic re-execution: expected choice decision at %s", what)
			p.kill(outAbort)
		}
		p.trail = append(p.trail, d)
		return int(d.V)
	}
	for k := n - 1; k >= 1; k-- {
		sib := make([]decision, len(p.trail)+1)
		copy(sib, p.trail)
		sib[len(p.trail)] = decision{V: uint64(k), K: 2}
		p.E.push(sib, p.model)
	}
	p.trail = append(p.trail, decision{V: 0, K: 2})
	return 0
}

// vfAssume
func (p *pathCtx) assumeVal(c value) {
	p.flushAsserts(true)
	p.assumeEnv(c)
}

// assumeEnv adds an environment-model constraint (not a harness precondition).
func (p *pathCtx) assumeEnv(c value) {
	switch c := c.(type) {
	case bool:
		if !c {
			p.kill(outAssumeFalse)
		}
	case *Term:
		if p.concrete {
			if p.i.tc.Eval(c, p.E.replayModel) == 0 {
				p.kill(outAssumeFalse)
			}
			return
		}
		if p.pos < len(p.prefix) {
			// feasibility was established when this prefix was created
			p.assume(c)
			return
		}
		if p.model != nil && p.i.tc.Eval(c, p.model) != 0 {
			p.assume(c)
			return
		}
		for _, lm := range p.live {
			if p.i.tc.Eval(c, lm) != 0 {
				p.assume(c)
				return
			}
		}
		res, m := p.check([]*Term{c}, true)
		switch res {
		case Sat:
			p.learn(m, true)
			p.assume(c)
			p.model = m
		case Unsat:
			p.kill(outAssumeFalse)
		default:
			p.kill(outAbort)
		}
	default:
		panic(engineFault{fmt.Sprintf("vfAssume(%T)", c)})
	}
}

func (p *pathCtx) modelCopy(m Model) map[string]uint64 {
	out := map[string]uint64{}
	for _, v := range p.i.tc.vars {
		out[v.name] = m[v.name]
	}
	return out
}

func (p *pathCtx) violation(kind, label, detail, site string, stack []string, m Model) {
	p.violated = true
	v := &Violation{Harness: p.E.H.Func, Kind: kind, Label: label, Detail: detail, Site: site, Stack: stack,
		Model: p.modelCopy(m), Trail: append([]decision{}, p.trail...), Params: p.E.params,
		Observed: append([]string{}, p.observed...), HashIns: p.i.hashInsDescr()}
	p.E.addViolation(v)
}

// vfAssert
func (p *pathCtx) assertVal(c value, label string) {
	st := p.E.site(label)
	switch c := c.(type) {
	case bool:
		p.E.mu.Lock()
		st.Reached++
		if c {
			st.Trivial++
		} else {
			st.Violated++
		}
		p.E.mu.Unlock()
		if !c {
			var m Model
			if p.concrete {
				m = p.E.replayModel
			} else {
				m = p.getModel()
			}
			detail := "assertion is concretely false on this path"
			if p.i.S != nil && p.i.S.live() > 1 {
				detail += "; goroutines: " + strings.Join(p.i.S.describeAll(), " | ")
			}
			p.violation("assert", label, detail, "", p.i.curStack(), m)
			p.kill(outStopped)
		}
	case *Term:
		tc := p.i.tc
		if p.concrete {
			ok := tc.Eval(c, p.E.replayModel) != 0
			p.E.mu.Lock()
			st.Reached++
			if !ok {
				st.Violated++
			}
			p.E.mu.Unlock()
			if !ok {
				p.violation("assert", label, "", "", p.i.curStack(), p.E.replayModel)
				p.kill(outStopped)
			}
			return
		}
		p.nontrivial = true
		p.E.mu.Lock()
		st.Reached++
		p.E.mu.Unlock()
		p.deferred = append(p.deferred, deferredAssert{c, label, p.i.curStack()})
	default:
		panic(engineFault{fmt.Sprintf("vfAssert(%T)", c)})
	}
}

type deferredAssert struct {
	c     *Term
	label string
	stack []string
}

// flushAsserts discharges all pending symbolic assertions with one query:
// PC and (not a1 or not a2 or ...). Called before every vfAssume and at the
// end of the path (assumptions are not retroactive).
func (p *pathCtx) flushAsserts(inGoroutine bool) {
	if len(p.deferred) == 0 || p.concrete {
		return
	}
	tc := p.i.tc
	defs := p.deferred
	p.deferred = nil
	for round := 0; round < 4 && len(defs) > 0; round++ {
		bad := tc.Bool(false)
		for _, d := range defs {
			bad = tc.BOr(bad, tc.BNot(d.c))
		}
		// cheap: a live model violating one of them is a counterexample already
		var m Model
		res := Unknown
		for _, lm := range p.live {
			if tc.Eval(bad, lm) != 0 {
				res, m = Sat, lm
				break
			}
		}
		if res != Sat {
			p.flush()
			var err error
			res, m, err = p.w.solver.Check([]*Term{bad}, true)
			if err != nil || p.w.solver.dead {
				p.inconclusive("solver failure: %v", err)
				p.w.restartSolver()
				return
			}
		}
		switch res {
		case Unsat:
			p.E.mu.Lock()
			for _, d := range defs {
				p.E.Sites[d.label].Discharged++
			}
			p.E.mu.Unlock()
			return
		case Sat:
			var rest []deferredAssert
			for _, d := range defs {
				if tc.Eval(d.c, m) == 0 {
					p.E.mu.Lock()
					p.E.Sites[d.label].Violated++
					p.E.mu.Unlock()
					p.violation("assert", d.label, "", "", d.stack, m)
				} else {
					rest = append(rest, d)
				}
			}
			defs = rest
		default:
			p.inconclusive("solver returned unknown on an assertion query (timeout %d ms)", p.w.solver.timeout)
			return
		}
	}
}

func (p *pathCtx) panicOutcome(tp targetPanic, g *goroutine) {
	msg := describePanic(tp)
	site, pos := "?", ""
	var stack []string
	if tp.info != nil {
		site, pos, stack = tp.info.fn, tp.info.pos, tp.info.stack
	}
	if p.expectPanic != "" && strings.Contains(msg, p.expectPanic) {
		p.end(outPanic)
		return
	}
	var m Model
	func() {
		defer func() {
			if r := recover(); r != nil {
				if _, ok := r.(abortPath); !ok {
					panic(r)
				}
			}
		}()
		if p.concrete {
			m = p.E.replayModel
		} else {
			m = p.getModel()
		}
	}()
	if m != nil {
		p.violation("panic", msg, pos, site, stack, m)
	}
	p.end(outPanic)
}

// spin: the code between vfMustFinishWithin and vfFinished is still running
// after the stated number of instructions (a busy loop, not a blocked
// goroutine). Reported like a deadlock: the native replay must not terminate.
func (p *pathCtx) spin(fr *frame) {
	var m Model
	func() {
		defer func() {
			if r := recover(); r != nil {
				if _, ok := r.(abortPath); !ok {
					panic(r)
				}
			}
		}()
		if p.concrete {
			m = p.E.replayModel
		} else {
			m = p.getModel()
		}
	}()
	if m != nil {
		st := fr.stack()
		p.violation("deadlock", "no progress: still running after the stated instruction bound", fr.fn.String(), "", st, m)
	}
	p.end(outDeadlock)
}

func (p *pathCtx) deadlock(s *sched) {
	if p.expectDeadlock {
		p.end(outDeadlock)
		return
	}
	var m Model
	func() {
		defer func() {
			if r := recover(); r != nil {
				if _, ok := r.(abortPath); !ok {
					panic(r)
				}
			}
		}()
		if p.concrete {
			m = p.E.replayModel
		} else {
			m = p.getModel()
		}
	}()
	if m != nil {
		bl := s.describeBlocked()
		p.violation("deadlock", "all goroutines blocked", strings.Join(bl, "; "), "", bl, m)
	}
	p.end(outDeadlock)
}

// ---------------------------------------------------------------------

func (E *Explorer) site(label string) *siteStat {
	E.mu.Lock()
	defer E.mu.Unlock()
	st := E.Sites[label]
	if st == nil {
		st = &siteStat{}
		E.Sites[label] = st
	}
	return st
}

func (E *Explorer) addViolation(v *Violation) {
	E.mu.Lock()
	defer E.mu.Unlock()
	k := v.Key()
	E.violKeys[k]++
	if E.violKeys[k] <= 3 {
		E.Violations = append(E.Violations, v)
	}
}

type workItem struct {
	prefix []decision
	model  Model
}

func (E *Explorer) push(prefix []decision, m Model) {
	E.mu.Lock()
	E.stack = append(E.stack, workItem{prefix, m})
	E.Forks++
	E.mu.Unlock()
	E.cond.Signal()
}

func (E *Explorer) pop() (workItem, bool) {
	E.mu.Lock()
	defer E.mu.Unlock()
	for {
		if E.stop {
			return workItem{}, false
		}
		if n := len(E.stack); n > 0 {
			p := E.stack[n-1]
			E.stack = E.stack[:n-1]
			E.active++
			return p, true
		}
		if E.active == 0 {
			E.cond.Broadcast()
			return workItem{}, false
		}
		E.cond.Wait()
	}
}

func (E *Explorer) doneOne() {
	E.mu.Lock()
	E.active--
	if E.active == 0 && len(E.stack) == 0 {
		E.cond.Broadcast()
	}
	E.mu.Unlock()
}

func (w *worker) restartSolver() {
	if w.solver != nil {
		w.solver.Close()
	}
	s, err := NewSolver(w.E.solverKind, nil, w.E.L.solverTimeoutMs)
	if err != nil {
		panic(err)
	}
	if f := os.Getenv("SYMGO_SOLVER_LOG"); f != "" && w.id == 0 {
		lf, _ := os.Create(f)
		s.log = lf
	}
	w.solver = s
}

func (w *worker) loop() {
	E := w.E
	for {
		it, ok := E.pop()
		if !ok {
			return
		}
		w.runPath(it.prefix, it.model)
		E.doneOne()
		if time.Now().After(E.deadline) {
			E.mu.Lock()
			if !E.stop {
				E.stop = true
				E.Inconclusive = append(E.Inconclusive, "wall-clock budget exhausted before the exploration finished")
			}
			E.mu.Unlock()
			E.cond.Broadcast()
		}
	}
}

func (w *worker) runPath(prefix []decision, hint Model) {
	E := w.E
	tc := NewTermCtx()
	if w.solver == nil || w.solver.dead {
		w.restartSolver()
	}
	w.solver.tc = tc
	w.solver.Reset()
	q0, s0, u0, k0, t0 := w.solver.Queries, w.solver.NSat, w.solver.NUnsat, w.solver.NUnk, w.solver.Time

	i := &interpreter{
		prog:     E.L.prog,
		L:        E.L,
		W:        w,
		globals:  map[*ssa.Global]*value{},
		initDone: map[*ssa.Package]bool{},
		sizes:    E.L.sizes,
		tc:       tc,
		maxSteps: E.maxSteps,
		side:     map[any]any{},
		hashMemo: map[string][]value{},
		trace:    E.trace,
	}
	i.runtimeErrorT = E.L.runtimeErrorT
	p := &pathCtx{w: w, i: i, E: E, prefix: prefix, occ: map[string]int{}, reached: map[string]bool{}, pcSet: map[int]bool{}, dom: newDomains(tc)}
	if hint != nil {
		p.live = append(p.live, hint)
	}
	p.live = append(p.live, w.pool...)
	if E.replayModel != nil {
		p.concrete = true
	}
	i.p = p
	i.S = newSched(i)
	s := i.S
	g0 := s.newG("harness " + E.H.Func)
	s.hostWG.Add(1)
	go func() {
		defer s.hostWG.Done()
		s.runG(g0, func() {
			callSSA(i, nil, 0, E.fn, nil, nil)
		})
	}()
	<-s.done
	s.hostWG.Wait()
	if p.outcome != outInfeasible && p.outcome != outAbort {
		func() {
			defer func() {
				if r := recover(); r != nil {
					if _, ok := r.(abortPath); !ok {
						p.inconclusive("engine fault while discharging assertions: %v", r)
					}
				}
			}()
			p.flushAsserts(false)
		}()
	}

	// passing paths kept for validation against the native build: the N paths
	// whose decision trail has the smallest hash, so that the choice does not
	// depend on the order in which the workers finish
	var passSample *Violation
	var passHash uint64
	if E.validateN > 0 && p.outcome == outReturn && !p.violated && len(p.inconcl) == 0 && !p.concrete {
		hh := fnv.New64a()
		hh.Write([]byte(trailString(p.trail)))
		passHash = hh.Sum64()
		E.mu.Lock()
		want := len(E.PassSamples) < E.validateN || passHash < E.passMaxHash
		E.mu.Unlock()
		if want {
			func() {
				defer func() { recover() }()
				if m := p.getModel(); m != nil {
					var reached []string
					for l := range p.reached {
						reached = append(reached, l)
					}
					sort.Strings(reached)
					passSample = &Violation{Harness: E.H.Func, Kind: "pass", Model: p.modelCopy(m), Trail: append([]decision{}, p.trail...),
						Params: E.params, Observed: reached, HashIns: p.i.hashInsDescr(), Detail: fmt.Sprintf("%016x", passHash)}
				}
			}()
		}
	}

	// collect
	E.mu.Lock()
	E.Paths++
	if passSample != nil {
		E.PassSamples = append(E.PassSamples, passSample)
		sort.Slice(E.PassSamples, func(a, b int) bool { return E.PassSamples[a].Detail < E.PassSamples[b].Detail })
		if len(E.PassSamples) > E.validateN {
			E.PassSamples = E.PassSamples[:E.validateN]
		}
		if len(E.PassSamples) == E.validateN {
			fmt.Sscanf(E.PassSamples[len(E.PassSamples)-1].Detail, "%x", &E.passMaxHash)
		}
	}
	E.Outcomes[outcomeNames[p.outcome]]++
	E.Decisions += len(p.trail)
	E.Steps += i.steps
	if len(tc.vars) > E.MaxSymVars {
		E.MaxSymVars = len(tc.vars)
	}
	if p.nontrivial {
		E.NontrivPaths++
	}
	for l := range p.reached {
		E.Reach[l]++
	}
	for _, m := range p.inconcl {
		if len(E.Inconclusive) < 50 {
			E.Inconclusive = append(E.Inconclusive, m)
		}
	}
	E.Queries += w.solver.Queries - q0
	E.QSat += w.solver.NSat - s0
	E.QUnsat += w.solver.NUnsat - u0
	E.QUnknown += w.solver.NUnk - k0
	E.SolverTime += w.solver.Time - t0
	if E.replayModel != nil {
		E.Observations = append(E.Observations, p.observed)
	}
	if len(E.Samples) < 6 && (p.outcome == outReturn || p.outcome == outPanic) && (E.Paths%7 == 1 || len(E.Samples) < 2) {
		smp := map[string]any{"outcome": outcomeNames[p.outcome], "decisions": trailString(p.trail), "steps": i.steps, "symbolic_vars": len(tc.vars)}
		if len(p.observed) > 0 {
			ob := p.observed
			if len(ob) > 12 {
				ob = ob[:12]
			}
			smp["observed"] = ob
		}
		if p.model != nil {
			mm := map[string]uint64{}
			n := 0
			for _, v := range tc.vars {
				if n >= 16 {
					break
				}
				mm[v.name] = p.model[v.name]
				n++
			}
			smp["model"] = mm
		}
		E.Samples = append(E.Samples, smp)
	}
	E.mu.Unlock()
	if len(p.inconcl) > 0 && E.verbose {
		fmt.Printf("  [path %s] inconclusive: %s\n", trailString(p.trail), p.inconcl[0])
	}
}

func trailString(t []decision) string {
	var sb strings.Builder
	for k, d := range t {
		if k > 200 {
			sb.WriteString("…")
			break
		}
		switch d.K {
		case 0:
			if d.B {
				sb.WriteByte('T')
			} else {
				sb.WriteByte('F')
			}
		case 1:
			if d.B {
				fmt.Fprintf(&sb, "[=%d]", d.V)
			} else {
				fmt.Fprintf(&sb, "[!%d]", d.V)
			}
		case 2:
			fmt.Fprintf(&sb, "<%d>", d.V)
		}
	}
	return sb.String()
}

// Run explores all paths of the harness.
func (E *Explorer) Run(nworkers int) {
	E.cond = sync.NewCond(&E.mu)
	E.Outcomes = map[string]int{}
	E.violKeys = map[string]int{}
	E.Sites = map[string]*siteStat{}
	E.Reach = map[string]int{}
	E.Funcs = map[string]int{}
	E.stack = []workItem{{}}
	if E.replayModel != nil {
		nworkers = 1
	}
	var wg sync.WaitGroup
	workers := make([]*worker, nworkers)
	for k := 0; k < nworkers; k++ {
		w := &worker{E: E, id: k, infos: map[*ssa.Function]*fnInfo{}, ifcache: map[string]string{}, verbose: E.verbose}
		workers[k] = w
		wg.Add(1)
		go func() {
			defer wg.Done()
			w.loop()
		}()
	}
	wg.Wait()
	for _, w := range workers {
		if w.solver != nil {
			w.solver.Close()
		}
		for _, in := range w.infos {
			if in.calls > 0 {
				E.Funcs[in.name] += in.calls
			}
		}
	}
	sort.Strings(E.Inconclusive)
}

func hostStack() string {
	s := string(debug.Stack())
	lines := strings.Split(s, "\n")
	if len(lines) > 40 {
		lines = lines[:40]
	}
	return strings.Join(lines, "\n")
}

func (i *interpreter) curStack() []string {
	if i.curG != nil && i.curG.top != nil {
		return i.curG.top.stack()
	}
	return nil
}

func (i *interpreter) whereNow() string {
	if i.curG != nil && i.curG.top != nil {
		fr := i.curG.top
		pos := ""
		if fr.cur != nil && fr.cur.Pos().IsValid() {
			pos = shortPos(i.prog.Fset.Position(fr.cur.Pos()))
		}
		return fr.fn.String() + " " + pos
	}
	return "?"
}
